// vcheck is the driver of the deterministic-simulation checks for pion/stun.
//
//	vcheck check <property> [--tier quick|thorough] [--budget <seconds>]
//	vcheck replay <replay-file>
//	vcheck selftest [--seeds N]
//	vcheck build [--smoke]
//
// exit 0: property held on everything explored (KNOWN-FINDING lines allowed)
// exit 1: "VIOLATION property=<id> replay=<path>" printed
// exit 2: the machinery could not do its job (never reported as a violation)
package main

import (
	"crypto/sha256"
	"encoding/hex"
	"encoding/json"
	"fmt"
	"io/fs"
	"os"
	"os/exec"
	"path/filepath"
	"runtime"
	"sort"
	"strconv"
	"strings"
	"sync"
	"time"
)

var (
	verifDir = "/verif"
	repoDir  = "/repo"
)

var engineOf = map[string]string{
	"C10": "client", "C11": "client", "C12": "client", "C15": "client",
	"C13": "agent", "C14": "agent",
	"C18": "hmac",
}

func fatal2(f string, a ...any) {
	fmt.Fprintf(os.Stderr, "vcheck: "+f+"\n", a...)
	os.Exit(2)
}

func hashTree() (repo string, all string) {
	h := sha256.New()
	add := func(root string, pred func(string) bool) {
		var files []string
		filepath.WalkDir(root, func(p string, d fs.DirEntry, err error) error {
			if err != nil {
				return nil
			}
			if d.IsDir() {
				if d.Name() == ".git" {
					return filepath.SkipDir
				}
				return nil
			}
			if pred(p) {
				files = append(files, p)
			}
			return nil
		})
		sort.Strings(files)
		for _, f := range files {
			b, err := os.ReadFile(f)
			if err != nil {
				continue
			}
			fmt.Fprintf(h, "%s %d\n", strings.TrimPrefix(f, root), len(b))
			h.Write(b)
		}
	}
	add(repoDir, func(p string) bool {
		return strings.HasSuffix(p, ".go") || strings.HasSuffix(p, "go.mod") || strings.HasSuffix(p, "go.sum")
	})
	repo = hex.EncodeToString(h.Sum(nil))[:16]
	for _, d := range []string{"sim", "rt", "tools", "scripts"} {
		add(filepath.Join(verifDir, d), func(p string) bool {
			return strings.HasSuffix(p, ".go") || strings.HasSuffix(p, ".tmpl") || strings.HasSuffix(p, ".sh") || strings.HasSuffix(p, "go.mod")
		})
	}
	all = hex.EncodeToString(h.Sum(nil))[:16]
	return
}

// build returns the path of the harness binary for the current trees.
func build(smoke bool) (bin string, treeHash string) {
	repoHash, all := hashTree()
	cache := filepath.Join(verifDir, ".cache")
	dir := filepath.Join(cache, all)
	bin = filepath.Join(dir, "sim.test")
	if _, err := os.Stat(bin); err == nil && !smoke {
		now := time.Now()
		os.Chtimes(dir, now, now)
		return bin, repoHash
	}
	// keep the cache small: entries not used for 30 minutes go (a younger one
	// may belong to a check of another tree that is running right now)
	if ents, err := os.ReadDir(cache); err == nil {
		for _, e := range ents {
			if e.Name() == all {
				continue
			}
			st, err := os.Stat(filepath.Join(cache, e.Name()))
			if err == nil && time.Since(st.ModTime()) > 30*time.Minute {
				os.RemoveAll(filepath.Join(cache, e.Name()))
			}
		}
	}
	// serialise concurrent builds of the same tree
	os.MkdirAll(dir, 0o755)
	lock := filepath.Join(dir, "lock")
	for i := 0; ; i++ {
		f, err := os.OpenFile(lock, os.O_CREATE|os.O_EXCL|os.O_WRONLY, 0o644)
		if err == nil {
			f.Close()
			break
		}
		if st, err2 := os.Stat(lock); err2 == nil && time.Since(st.ModTime()) > 5*time.Minute {
			os.Remove(lock)
			continue
		}
		if _, err := os.Stat(bin); err == nil && !smoke {
			return bin, repoHash
		}
		time.Sleep(500 * time.Millisecond)
		if i > 1200 {
			fatal2("timed out waiting for build lock %s", lock)
		}
	}
	defer os.Remove(lock)
	if _, err := os.Stat(bin); err == nil && !smoke {
		return bin, repoHash
	}
	tmp := bin + ".tmp"
	args := []string{tmp}
	if smoke {
		args = append(args, "--smoke")
	}
	cmd := exec.Command(filepath.Join(verifDir, "scripts/build.sh"), args...)
	cmd.Env = append(os.Environ(), "VERIF_REPO="+repoDir)
	out, err := cmd.CombinedOutput()
	if err != nil {
		fmt.Fprintln(os.Stderr, string(out))
		fatal2("build failed: %v", err)
	}
	fmt.Fprint(os.Stderr, string(out))
	if err := os.Rename(tmp, bin); err != nil {
		fatal2("%v", err)
	}
	return bin, repoHash
}

// WorkerOut mirrors verifsim.WorkerOut.
type WorkerOut struct {
	Engine        string            `json:"engine"`
	Profile       string            `json:"profile"`
	Seed          uint64            `json:"seed"`
	Runs          int               `json:"runs"`
	FirstIdx      uint64            `json:"first_idx"`
	LastIdx       uint64            `json:"last_idx"`
	Steps         int64             `json:"steps"`
	SimTimeS      float64           `json:"sim_time_s"`
	WallS         float64           `json:"wall_s"`
	Stats         map[string]int    `json:"stats"`
	FPs           []string          `json:"fps"`
	Hists         []string          `json:"hists"`
	Hashes        []string          `json:"hashes"`
	StepCaps      int               `json:"step_caps"`
	Leftover      int               `json:"leftover_runs"`
	Harness       string            `json:"harness"`
	Viols         []json.RawMessage `json:"violations"`
	Other         map[string]int    `json:"ended_by_other_property"`
	Known         map[string]int    `json:"known"`
	Samples       []any             `json:"samples"`
	SiteHits      []uint32          `json:"site_hits"`
	SiteNames     []string          `json:"site_names"`
	StepCapSample []string          `json:"step_cap_sample"`
}

type workerSpec struct {
	engine, profile, tier string
	seed                  uint64
	from, stride          uint64
	to                    uint64
	budget                time.Duration
	maxRuns               int
	hashes                bool
	gomaxprocs            int
	minMS                 int
}

func runWorker(bin string, ws workerSpec, scratch string, n int) (*WorkerOut, error) {
	out := filepath.Join(scratch, fmt.Sprintf("w%d.json", n))
	cmd := exec.Command(bin, "-test.run", "^TestWorker$", "-test.timeout", "0")
	env := append(os.Environ(),
		"VERIF_ENGINE="+ws.engine, "VERIF_PROFILE="+ws.profile, "VERIF_TIER="+ws.tier,
		"VERIF_SEED="+strconv.FormatUint(ws.seed, 10),
		"VERIF_FROM="+strconv.FormatUint(ws.from, 10), "VERIF_STRIDE="+strconv.FormatUint(ws.stride, 10),
		"VERIF_BUDGET_MS="+strconv.FormatInt(ws.budget.Milliseconds(), 10),
		"VERIF_MAXRUNS="+strconv.Itoa(ws.maxRuns),
		"VERIF_OUT="+out,
		"VERIF_KNOWN="+filepath.Join(verifDir, "known_findings.json"),
		"VERIF_MIN_MS="+strconv.Itoa(ws.minMS),
	)
	if ws.to > 0 {
		env = append(env, "VERIF_TO="+strconv.FormatUint(ws.to, 10))
	}
	if ws.hashes {
		env = append(env, "VERIF_HASHES=1")
	}
	if ws.gomaxprocs > 0 {
		env = append(env, "GOMAXPROCS="+strconv.Itoa(ws.gomaxprocs))
	} else {
		env = append(env, "GOMAXPROCS=1") // one task runs at a time; more Ps only add GC contention
	}
	cmd.Env = env
	// real-time watchdog: a worker that does not finish within budget + minimisation + slack is stuck
	done := make(chan struct{})
	var killed bool
	go func() {
		select {
		case <-done:
		case <-time.After(ws.budget + time.Duration(ws.minMS)*time.Millisecond*3 + 120*time.Second):
			killed = true
			cmd.Process.Kill()
		}
	}()
	b, err := cmd.CombinedOutput()
	close(done)
	if killed {
		return nil, fmt.Errorf("watchdog: worker %d did not finish in time; output tail: %s", n, tail(string(b), 2000))
	}
	if err != nil {
		return nil, fmt.Errorf("worker %d: %v; output tail: %s", n, err, tail(string(b), 4000))
	}
	jb, err := os.ReadFile(out)
	if err != nil {
		return nil, fmt.Errorf("worker %d wrote no result: %v; output: %s", n, err, tail(string(b), 2000))
	}
	os.Remove(out)
	var wo WorkerOut
	if err := json.Unmarshal(jb, &wo); err != nil {
		return nil, err
	}
	return &wo, nil
}

func tail(s string, n int) string {
	if len(s) > n {
		return s[len(s)-n:]
	}
	return s
}

type agg struct {
	mu            sync.Mutex
	runs          int
	steps         int64
	simTime       float64
	stats         map[string]int
	fps           map[string]bool
	hists         map[string]bool
	stepCaps      int
	leftover      int
	harness       []string
	viols         []json.RawMessage
	other         map[string]int
	known         map[string]int
	samples       []any
	siteHits      []uint32
	siteNames     []string
	stepCapSample []string
	firstIdx      uint64
	lastIdx       uint64
	procs         int
}

func (a *agg) add(w *WorkerOut) {
	a.mu.Lock()
	defer a.mu.Unlock()
	a.procs++
	a.runs += w.Runs
	a.steps += w.Steps
	a.simTime += w.SimTimeS
	for k, v := range w.Stats {
		a.stats[k] += v
	}
	for _, f := range w.FPs {
		a.fps[f] = true
	}
	for _, f := range w.Hists {
		a.hists[f] = true
	}
	a.stepCaps += w.StepCaps
	if a.stepCapSample == nil {
		a.stepCapSample = w.StepCapSample
	}
	a.leftover += w.Leftover
	if w.Harness != "" {
		a.harness = append(a.harness, w.Harness)
	}
	a.viols = append(a.viols, w.Viols...)
	for k, v := range w.Other {
		a.other[k] += v
	}
	for k, v := range w.Known {
		a.known[k] += v
	}
	if len(a.samples) < 3 {
		a.samples = append(a.samples, w.Samples...)
	}
	if a.siteHits == nil {
		a.siteHits = make([]uint32, len(w.SiteHits))
	}
	if len(w.SiteNames) > 0 {
		a.siteNames = w.SiteNames
	}
	for i, h := range w.SiteHits {
		if i < len(a.siteHits) {
			a.siteHits[i] += h
		}
	}
	if w.LastIdx > a.lastIdx {
		a.lastIdx = w.LastIdx
	}
}

func scratchDir() string {
	base := os.Getenv("VERIF_SCRATCH")
	if base == "" {
		base = "/dev/shm"
	}
	if st, err := os.Stat(base); err != nil || !st.IsDir() {
		base = os.TempDir()
	}
	d, err := os.MkdirTemp(base, "verif-run.")
	if err != nil {
		fatal2("%v", err)
	}
	return d
}

// determinism runs the same run indices in separate processes at different
// GOMAXPROCS and compares the event-log hashes.
func determinism(bin, engine, profile, tier string, seed uint64, n int, scratch string) (seeds int, mismatches []string, err error) {
	type res struct {
		h   []string
		err error
	}
	cfgs := []int{1, 4, 16, 16}
	results := make([]res, len(cfgs))
	var wg sync.WaitGroup
	for i, g := range cfgs {
		wg.Add(1)
		go func(i, g int) {
			defer wg.Done()
			w, err := runWorker(bin, workerSpec{engine: engine, profile: profile, tier: tier, seed: seed, from: 0, stride: 1, to: uint64(n), budget: 10 * time.Minute, maxRuns: n, hashes: true, gomaxprocs: g, minMS: 1}, scratch, 1000+i)
			if err != nil {
				results[i].err = err
				return
			}
			results[i].h = w.Hashes
		}(i, g)
	}
	wg.Wait()
	for _, r := range results {
		if r.err != nil {
			return 0, nil, r.err
		}
	}
	ref := results[0].h
	for i := 1; i < len(results); i++ {
		if len(results[i].h) != len(ref) {
			mismatches = append(mismatches, fmt.Sprintf("GOMAXPROCS=%d produced %d runs, reference %d", cfgs[i], len(results[i].h), len(ref)))
			continue
		}
		for j := range ref {
			if ref[j] != results[i].h[j] {
				mismatches = append(mismatches, fmt.Sprintf("run %s (GOMAXPROCS=1) vs %s (GOMAXPROCS=%d)", ref[j], results[i].h[j], cfgs[i]))
			}
		}
	}
	return len(ref), mismatches, nil
}

type knownFinding struct {
	ID          string   `json:"id"`
	Property    string   `json:"property"`
	Properties  []string `json:"properties"`
	Status      string   `json:"status"`
	Signature   string   `json:"signature"`
	Description string   `json:"description"`
	Replay      string   `json:"replay"`
	Fixed       string   `json:"fixed"`
}

func loadKnown() []knownFinding {
	b, err := os.ReadFile(filepath.Join(verifDir, "known_findings.json"))
	if err != nil {
		return nil
	}
	var ks struct {
		Findings []knownFinding `json:"findings"`
	}
	if err := json.Unmarshal(b, &ks); err != nil {
		fatal2("known_findings.json: %v", err)
	}
	return ks.Findings
}

func (k knownFinding) appliesTo(prop string) bool {
	if k.Property == prop {
		return true
	}
	for _, p := range k.Properties {
		if p == prop {
			return true
		}
	}
	return false
}

func runReplay(bin, path, scratch string, showLog bool) (map[string]any, string, error) {
	out := filepath.Join(scratch, "replay.json")
	cmd := exec.Command(bin, "-test.run", "^TestReplay$", "-test.timeout", "0")
	cmd.Env = append(os.Environ(), "VERIF_REPLAY="+path, "VERIF_OUT="+out, "VERIF_KNOWN="+filepath.Join(verifDir, "known_findings.json"))
	if showLog {
		cmd.Env = append(cmd.Env, "VERIF_SHOWLOG=1")
	}
	b, err := cmd.CombinedOutput()
	if err != nil {
		return nil, string(b), fmt.Errorf("replay: %v: %s", err, tail(string(b), 3000))
	}
	jb, err := os.ReadFile(out)
	if err != nil {
		return nil, string(b), err
	}
	var res map[string]any
	if err := json.Unmarshal(jb, &res); err != nil {
		return nil, string(b), err
	}
	return res, string(b), nil
}

func cmdCheck(args []string) {
	if len(args) < 1 {
		fatal2("usage: vcheck check <property> [--tier quick|thorough] [--budget s]")
	}
	prop := args[0]
	engine, ok := engineOf[prop]
	if !ok {
		fatal2("property %s is not claimed by any engine", prop)
	}
	tier := os.Getenv("VERIF_TIER")
	budgetS := 0
	for i := 1; i < len(args); i++ {
		switch args[i] {
		case "--tier":
			i++
			tier = args[i]
		case "--budget":
			i++
			budgetS, _ = strconv.Atoi(args[i])
		}
	}
	if tier != "thorough" {
		tier = "quick"
	}
	seed := uint64(1)
	if s := os.Getenv("VERIF_SEED"); s != "" {
		if v, err := strconv.ParseInt(s, 10, 64); err == nil {
			seed = uint64(v)
		}
	}
	if budgetS == 0 {
		budgetS = 60
		if tier == "thorough" {
			budgetS = 780
		}
	}
	start := time.Now()
	bin, treeHash := build(false)
	scratch := scratchDir()
	defer os.RemoveAll(scratch)

	// 1. determinism sample
	detN := 24
	if tier == "thorough" {
		detN = 300
	}
	detSeeds, mism, err := determinism(bin, engine, prop, tier, seed, detN, scratch)
	if err != nil {
		fatal2("determinism sample: %v", err)
	}
	if len(mism) > 0 {
		for _, m := range mism {
			fmt.Fprintln(os.Stderr, "determinism mismatch:", m)
		}
		fatal2("determinism self-test failed for %d runs: results would not replay", len(mism))
	}

	// 2. seeded search on all cores
	W := runtime.NumCPU()
	if W > 16 {
		W = 16
	}
	a := &agg{stats: map[string]int{}, fps: map[string]bool{}, hists: map[string]bool{}, other: map[string]int{}, known: map[string]int{}}
	deadline := time.Now().Add(time.Duration(budgetS) * time.Second)
	maxRuns := 1500
	minMS := 25000
	if tier == "thorough" {
		minMS = 90000
	}
	var wg sync.WaitGroup
	var stop bool
	var stopMu sync.Mutex
	var werrs []string
	for w := 0; w < W; w++ {
		wg.Add(1)
		go func(w int) {
			defer wg.Done()
			from := uint64(w)
			gen := 0
			for {
				stopMu.Lock()
				s := stop
				stopMu.Unlock()
				rem := time.Until(deadline)
				if s || rem < 300*time.Millisecond {
					return
				}
				wo, err := runWorker(bin, workerSpec{engine: engine, profile: prop, tier: tier, seed: seed, from: from, stride: uint64(W), budget: rem, maxRuns: maxRuns, minMS: minMS}, scratch, w*1000+gen)
				gen++
				if err != nil {
					stopMu.Lock()
					werrs = append(werrs, err.Error())
					stop = true
					stopMu.Unlock()
					return
				}
				a.add(wo)
				if len(wo.Viols) > 0 || wo.Harness != "" {
					stopMu.Lock()
					stop = true
					stopMu.Unlock()
					return
				}
				if wo.Runs == 0 {
					return
				}
				from = wo.LastIdx + uint64(W)
			}
		}(w)
	}
	wg.Wait()
	if len(werrs) > 0 {
		fatal2("worker failure: %s", strings.Join(werrs, "\n"))
	}
	if len(a.harness) > 0 {
		fatal2("harness trouble: %s", strings.Join(a.harness, "\n"))
	}
	if a.runs > 0 && a.stepCaps*100 > a.runs {
		fmt.Fprintln(os.Stderr, strings.Join(a.stepCapSample, "\n"))
		fatal2("step cap hit in %d of %d runs (>1%%)", a.stepCaps, a.runs)
	}

	// 3. known findings: replay the stored witness of each open finding
	var knownLines []string
	for _, k := range loadKnown() {
		if k.Status != "open" || !k.appliesTo(prop) {
			continue
		}
		reproduced := a.known[k.ID] > 0
		if !reproduced && k.Replay != "" {
			res, _, err := runReplay(bin, filepath.Join(verifDir, k.Replay), scratch, false)
			if err == nil {
				if v, _ := res["violation"].(map[string]any); v != nil && v["known"] == k.ID {
					reproduced = true
				}
			}
		}
		if reproduced {
			knownLines = append(knownLines, fmt.Sprintf("KNOWN-FINDING: property=%s %s: %s", prop, k.ID, k.Description))
		}
	}
	for _, l := range knownLines {
		fmt.Println(l)
	}

	// 4. violations
	var replayPaths []string
	replayDir := filepath.Join(verifDir, "replays")
	if d := os.Getenv("VERIF_REPLAY_DIR"); d != "" {
		replayDir = d
	}
	os.MkdirAll(replayDir, 0o755)
	seenClass := map[string]int{}
	for _, v := range a.viols {
		var rf map[string]any
		json.Unmarshal(v, &rf)
		if vv, _ := rf["violation"].(map[string]any); vv != nil {
			c, _ := vv["class"].(string)
			seenClass[c]++
			if seenClass[c] > 2 || len(replayPaths) >= 6 {
				continue // several workers found the same class: two witnesses are enough
			}
		}
		rf["tree_hash"] = treeHash
		p := filepath.Join(replayDir, fmt.Sprintf("%s-%d-%v.json", prop, seed, rf["run"]))
		b, _ := json.MarshalIndent(rf, "", " ")
		os.WriteFile(p, b, 0o644)
		// confirm once more in a fresh process
		res, _, err := runReplay(bin, p, scratch, false)
		if err != nil {
			fatal2("replay of %s failed to run: %v", p, err)
		}
		if rep, _ := res["reproduced"].(bool); !rep {
			// The run may depend on state that earlier runs of its worker process
			// left in package-level variables of the code under test: retry as a
			// sequence replay (re-execute that process's runs in order).
			if _, ok := rf["sequence_from"]; ok || rf["sequence_stride"] != nil {
				rf["sequence_replay"] = true
				rf["decisions"] = []int{}
				if h, _ := rf["orig_log_hash"].(string); h != "" {
					rf["log_hash"] = h
				}
				b, _ := json.MarshalIndent(rf, "", " ")
				os.WriteFile(p, b, 0o644)
				res, _, err = runReplay(bin, p, scratch, false)
				if err != nil {
					fatal2("sequence replay of %s failed to run: %v", p, err)
				}
			}
			if rep, _ := res["reproduced"].(bool); !rep {
				fatal2("violation in %s did not reproduce in a fresh process (got %v): not reported", p, res["violation"])
			}
		}
		if sh, _ := res["same_hash"].(bool); !sh {
			fatal2("replay of %s reproduced the violation with a different event log hash: nondeterminism", p)
		}
		replayPaths = append(replayPaths, p)
	}

	// 5. evidence
	wall := time.Since(start).Seconds()
	reached, total := 0, 0
	var unreached []string
	files := map[string][]string{"client": {"client.go:", "agent.go:"}, "agent": {"agent.go:"}, "hmac": {"hmac.go:", "pool.go:"}}[engine]
	for i, h := range a.siteHits {
		if i >= len(a.siteNames) {
			break
		}
		n := a.siteNames[i]
		if !strings.Contains(n, " stmt ") {
			continue // only statement yields count; lock/atomic/access sites are not yields
		}
		mine := false
		for _, f := range files {
			if strings.HasPrefix(n, f) {
				mine = true
			}
		}
		if !mine {
			continue
		}
		total++
		if h > 0 {
			reached++
		} else {
			unreached = append(unreached, n)
		}
	}
	faults := map[string]int{}
	probes := map[string]int{}
	other := map[string]int{}
	for k, v := range a.stats {
		switch {
		case strings.HasPrefix(k, "fault_"):
			faults[strings.TrimPrefix(k, "fault_")] = v
		case strings.HasPrefix(k, "probe_"):
			probes[strings.TrimPrefix(k, "probe_")] = v
		default:
			other[k] = v
		}
	}
	searchWall := float64(budgetS)
	cov := map[string]any{
		"evaluations":              a.runs,
		"distinct_nontrivial":      len(a.fps),
		"rule":                     ruleText(engine),
		"samples":                  a.samples,
		"runs_per_hour":            int(float64(a.runs) / searchWall * 3600),
		"seeds":                    map[string]any{"base": seed, "first_run": 0, "last_run": a.lastIdx},
		"sched_steps":              a.steps,
		"simulated_time_s":         a.simTime,
		"faults_fired":             faults,
		"probes":                   probes,
		"counters":                 other,
		"yield_sites_reached":      reached,
		"yield_sites_total":        total,
		"yield_sites_unreached":    unreached,
		"step_cap_hits":            a.stepCaps,
		"runs_with_leftover_tasks": a.leftover,
		"ended_by_other_property":  a.other,
		"known_findings_matched":   a.known,
		"known_findings_printed":   knownLines,
		"determinism_sample":       map[string]any{"runs": detSeeds, "processes": 4, "gomaxprocs": []int{1, 4, 16, 16}, "mismatches": 0},
		"worker_processes":         a.procs,
		"tree_hash":                treeHash,
		"components":               components(engine),
	}
	ev := map[string]any{
		"property_id": prop,
		"tier":        tier,
		"seed":        seed,
		"level":       "exploration",
		"coverage":    cov,
		"assumptions": assumptions(engine),
		"wall_s":      wall,
		"violations":  len(replayPaths),
	}
	evDir := filepath.Join(verifDir, "evidence")
	if d := os.Getenv("VERIF_EVIDENCE_DIR"); d != "" {
		evDir = d // mutant runs must not overwrite the evidence of the real tree
	}
	os.MkdirAll(evDir, 0o755)
	b, _ := json.MarshalIndent(ev, "", " ")
	if err := os.WriteFile(filepath.Join(evDir, prop+".json"), b, 0o644); err != nil {
		fatal2("%v", err)
	}
	fmt.Printf("%s %s: %d simulated runs (%d distinct non-trivial), %d scheduler steps, %.0f s simulated, %.1f s wall; determinism sample %d runs x4 processes ok; other-property endings %v\n",
		prop, tier, a.runs, len(a.fps), a.steps, a.simTime, wall, detSeeds, a.other)
	if len(replayPaths) > 0 {
		for _, p := range replayPaths {
			fmt.Printf("VIOLATION property=%s replay=%s\n", prop, p)
		}
		os.RemoveAll(scratch)
		os.Exit(1)
	}
}

func ruleText(engine string) string {
	switch engine {
	case "agent":
		return "each evaluation is one seeded simulated run (swarm-drawn task count, id/time universe, op mix, re-entrancy, in-lock yields) of the real Agent; a run is non-trivial if it had >=2 context switches or >=4 operations; distinct = distinct fingerprint (hash of the (task,site) sequence at context switches, environment events and the operation history)"
	case "client":
		return "each evaluation is one seeded simulated run (swarm-drawn options, callers, fault rates, clock mode, yield subset) of the real Client+Agent over the simulated connection/network/clock; a run is non-trivial if it had >=2 context switches; distinct = distinct fingerprint (hash of the (task,site) sequence at context switches and of environment/fault events)"
	case "hmac":
		return "each evaluation is one seeded simulated run of 1..8 tasks using the real pooled HMAC through a seeded pool; non-trivial if >=2 context switches or >=2 acquisitions; distinct = distinct fingerprint (hash of schedule and of the script of keys/chunks)"
	}
	return ""
}

func components(engine string) map[string]any {
	real := []string{}
	stub := []string{}
	switch engine {
	case "agent":
		real = []string{"stun.Agent (agent.go, instrumented copy)", "stun.Message (uninstrumented)"}
		stub = []string{"goroutine scheduling (seeded)", "sync.Mutex blocking (simulated, real lock taken when free)", "Go map iteration order (seeded)", "handlers (recording observers, may re-enter the agent)"}
	case "client":
		real = []string{"stun.Client (client.go, instrumented copy): Start/Do/Indicate/SetRTO/Close, handleAgentCallback, readUntilClosed, callbackWaitHandler, pools' New functions", "stun.Agent (agent.go, instrumented copy) behind a delegating wrapper", "tickerCollector + systemClock on the synctest fake clock (default configuration)", "stun.Message Build/Decode/ReadFrom/WriteTo (uninstrumented)"}
		stub = []string{"Connection (in-memory datagram endpoint)", "STUN server / network (loss, duplication, reordering, corruption, spontaneous datagrams)", "Clock and Collector (manual configuration only)", "goroutine scheduling (seeded)", "sync.Mutex/RWMutex/Cond blocking (simulated)", "sync.Pool (seeded recycle newest/oldest/fresh/drop)", "map order, multi-ready select (seeded)", "handlers and Do callbacks (recording observers)"}
	case "hmac":
		real = []string{"internal/hmac hmac.go + pool.go (instrumented copy)", "MessageIntegrity.AddTo/Check via newHMAC", "crypto/sha1, crypto/sha256"}
		stub = []string{"sync.Pool (seeded)", "goroutine scheduling (seeded)", "oracle: crypto/hmac"}
	}
	return map[string]any{"real": real, "stub": stub}
}

func assumptions(engine string) []string {
	base := []string{
		"the instrumenting rewriter preserves behaviour (checked by running the repository's own tests against the instrumented copy in pass-through mode in setup_cmd)",
		"sampling, not enumeration: a clean batch is evidence, not proof",
		"yields exist only in agent.go, client.go and internal/hmac; the codec runs uninterleaved",
		"the in-simulation race check sees struct fields and maps of the instrumented files, not individual slice elements",
	}
	switch engine {
	case "client":
		base = append(base, "preconditions enforced by the generator: transaction ids unique among transactions in flight, monotone clock, collector Close succeeds, Read returns after Close began under WithNoConnClose, responses at most the reader's 1024-byte buffer (longer ones appear as truncated/undecodable)",
			"datagrams are classified as decodable by the harness's own framing check (header, cookie, declared length, attribute TLVs); the library's decoder is cross-checked against it (probe decoder_disagrees_with_harness_framing)")
	case "agent":
		base = append(base, "handlers never re-enter the agent from a closed event (excluded by the property)", "histories fed to porcupine are capped at 60 operations; Unknown (timeout) is counted, never reported")
	}
	return base
}

func cmdReplay(args []string) {
	if len(args) < 1 {
		fatal2("usage: vcheck replay <file>")
	}
	bin, _ := build(false)
	scratch := scratchDir()
	defer os.RemoveAll(scratch)
	res, out, err := runReplay(bin, args[0], scratch, os.Getenv("VERIF_SHOWLOG") != "")
	if err != nil {
		fatal2("%v", err)
	}
	fmt.Print(out)
	if rep, _ := res["reproduced"].(bool); rep {
		v, _ := res["recorded_violation"].(map[string]any)
		fmt.Printf("VIOLATION property=%v replay=%s\n", v["property"], args[0])
		os.RemoveAll(scratch)
		os.Exit(1)
	}
	fmt.Println("replay did not reproduce the recorded violation on the current tree")
}

func cmdSelftest(args []string) {
	n := 300
	for i := 0; i < len(args); i++ {
		if args[i] == "--seeds" {
			i++
			n, _ = strconv.Atoi(args[i])
		}
	}
	bin, _ := build(false)
	scratch := scratchDir()
	defer os.RemoveAll(scratch)
	bad := 0
	for _, p := range []string{"C10", "C11", "C12", "C15", "C13", "C14", "C18"} {
		for _, tier := range []string{"quick", "thorough"} {
			seeds, mism, err := determinism(bin, engineOf[p], p, tier, 7, n, scratch)
			if err != nil {
				fatal2("%v", err)
			}
			fmt.Printf("selftest %s/%s: %d runs x 4 processes (GOMAXPROCS 1,4,16,16): %d mismatches\n", p, tier, seeds, len(mism))
			for _, m := range mism {
				fmt.Println("  ", m)
			}
			bad += len(mism)
		}
	}
	if bad > 0 {
		os.RemoveAll(scratch)
		os.Exit(2)
	}
}

func main() {
	if exe, err := os.Executable(); err == nil {
		if d := filepath.Dir(filepath.Dir(exe)); filepath.Base(filepath.Dir(exe)) == "bin" {
			verifDir = d
		}
	}
	if v := os.Getenv("VERIF_DIR"); v != "" {
		verifDir = v
	}
	if v := os.Getenv("VERIF_REPO"); v != "" {
		repoDir = v
	}
	if len(os.Args) < 2 {
		fatal2("usage: vcheck check|replay|selftest|build ...")
	}
	switch os.Args[1] {
	case "check":
		cmdCheck(os.Args[2:])
	case "replay":
		cmdReplay(os.Args[2:])
	case "selftest":
		cmdSelftest(os.Args[2:])
	case "build":
		smoke := len(os.Args) > 2 && os.Args[2] == "--smoke"
		bin, h := build(smoke)
		fmt.Println("built", bin, "tree", h)
	default:
		fatal2("unknown command %q", os.Args[1])
	}
}
