// vinstr instruments selected files of a scratch copy of pion/stun in place so
// that every source of scheduling nondeterminism in them goes through the
// verifrt runtime (see /verif/DESIGN.md §3.1).  It never touches /repo.
//
// usage: vinstr <copy-root> <reldir>:<file>[,<file>...] ...
//
// Anything it meets that it has no rule for aborts with exit status 2.
package main

import (
	"fmt"
	"go/ast"
	"go/importer"
	"go/parser"
	"go/printer"
	"go/token"
	"go/types"
	"os"
	"path/filepath"
	"sort"
	"strings"
)

var (
	fset  = token.NewFileSet()
	info  *types.Info
	sites []string
	funcs []string
	curFn string
)

func die(f string, a ...any) {
	fmt.Fprintf(os.Stderr, "vinstr: "+f+"\n", a...)
	os.Exit(2)
}

func site(pos token.Pos, kind string) ast.Expr {
	p := fset.Position(pos)
	sites = append(sites, fmt.Sprintf("%s:%d %s %s", filepath.Base(p.Filename), p.Line, kind, curFn))
	return &ast.BasicLit{Kind: token.INT, Value: fmt.Sprint(len(sites) - 1)}
}

func intLit(i int) ast.Expr { return &ast.BasicLit{Kind: token.INT, Value: fmt.Sprint(i)} }

func rtCall(name string, args ...ast.Expr) *ast.CallExpr {
	return &ast.CallExpr{Fun: &ast.SelectorExpr{X: ast.NewIdent("verifrt"), Sel: ast.NewIdent(name)}, Args: args}
}

func typeOf(e ast.Expr) types.Type {
	if tv, ok := info.Types[e]; ok {
		return tv.Type
	}
	if id, ok := e.(*ast.Ident); ok {
		if o := info.Uses[id]; o != nil {
			return o.Type()
		}
		if o := info.Defs[id]; o != nil {
			return o.Type()
		}
	}
	return nil
}

func named(t types.Type) string {
	if t == nil {
		return ""
	}
	if p, ok := t.(*types.Pointer); ok {
		t = p.Elem()
	}
	if n, ok := t.(*types.Named); ok {
		if n.Obj().Pkg() != nil {
			return n.Obj().Pkg().Path() + "." + n.Obj().Name()
		}
		return n.Obj().Name()
	}
	return ""
}

func isPtr(t types.Type) bool {
	if t == nil {
		return false
	}
	_, ok := t.Underlying().(*types.Pointer)
	return ok
}

func isPtrOrIface(t types.Type) bool {
	if t == nil {
		return false
	}
	if isPtr(t) {
		return true
	}
	_, ok := t.Underlying().(*types.Interface)
	return ok
}

func addr(e ast.Expr) ast.Expr {
	if isPtrOrIface(typeOf(e)) {
		return e
	}
	return &ast.UnaryExpr{Op: token.AND, X: e}
}

func id(s string) *ast.Ident { return ast.NewIdent(s) }

// ---------------------------------------------------------------------------
// shared-memory access collection (in-sim race detector)

type access struct {
	expr  ast.Expr
	write bool
}

type accCollector struct {
	stmt ast.Node
	out  []access
	seen map[string]int
	elem []access // accesses to the elements (backing array) of a slice expression
}

// pureSlice reports whether e is a side-effect free slice-typed expression over
// identifiers / selectors / slicing that is in scope before the statement.
func (c *accCollector) pureSlice(e ast.Expr) bool {
	t := typeOf(e)
	if t == nil {
		return false
	}
	if _, ok := t.Underlying().(*types.Slice); !ok {
		return false
	}
	var ok func(e ast.Expr) bool
	ok = func(e ast.Expr) bool {
		switch x := e.(type) {
		case *ast.ParenExpr:
			return ok(x.X)
		case *ast.Ident:
			obj := info.Uses[x]
			if obj == nil {
				return false
			}
			if _, isVar := obj.(*types.Var); !isVar {
				return false
			}
			return !(c.stmt != nil && obj.Pos() >= c.stmt.Pos() && obj.Pos() < c.stmt.End())
		case *ast.SelectorExpr:
			s, isSel := info.Selections[x]
			return isSel && s.Kind() == types.FieldVal && ok(x.X)
		case *ast.SliceExpr:
			for _, i := range []ast.Expr{x.Low, x.High, x.Max} {
				if i == nil {
					continue
				}
				switch i.(type) {
				case *ast.BasicLit, *ast.Ident:
				default:
					return false
				}
			}
			return ok(x.X)
		}
		return false
	}
	return ok(e)
}

func (c *accCollector) addElem(e ast.Expr, write bool) {
	if c.pureSlice(e) {
		c.elem = append(c.elem, access{e, write})
	}
}

func exprString(e ast.Expr) string {
	var sb strings.Builder
	printer.Fprint(&sb, fset, e)
	return sb.String()
}

func (c *accCollector) add(e ast.Expr, write bool) {
	k := exprString(e)
	if c.seen == nil {
		c.seen = map[string]int{}
	}
	if i, ok := c.seen[k]; ok {
		if write {
			c.out[i].write = true
		}
		return
	}
	c.seen[k] = len(c.out)
	c.out = append(c.out, access{e, write})
}

func isSyncType(t types.Type) bool {
	n := named(t)
	return strings.HasPrefix(n, "sync.") || strings.HasPrefix(n, "sync/atomic.")
}

// rootOK reports whether the path expression e (selectors / stars / parens over
// an identifier) is rooted at an identifier that is in scope before c.stmt and
// passes through at least one pointer dereference (so the memory is
// potentially shared), and contains no calls or map indexing.
func (c *accCollector) pathInfo(e ast.Expr) (ok bool, throughPtr bool) {
	switch x := e.(type) {
	case *ast.ParenExpr:
		return c.pathInfo(x.X)
	case *ast.Ident:
		obj := info.Uses[x]
		if obj == nil {
			return false, false
		}
		v, isVar := obj.(*types.Var)
		if !isVar {
			return false, false
		}
		if v.Pkg() != nil && v.Parent() == v.Pkg().Scope() {
			return false, false // package-level variable: initialised before any task exists
		}
		if c.stmt != nil && obj.Pos() >= c.stmt.Pos() && obj.Pos() < c.stmt.End() {
			return false, false // defined by the statement itself
		}
		return true, false
	case *ast.StarExpr:
		ok, _ := c.pathInfo(x.X)
		return ok, true
	case *ast.SelectorExpr:
		s, isSel := info.Selections[x]
		if !isSel || s.Kind() != types.FieldVal {
			return false, false
		}
		ok, tp := c.pathInfo(x.X)
		if !ok {
			return false, false
		}
		if isPtr(typeOf(x.X)) || s.Indirect() {
			tp = true
		}
		return true, tp
	}
	return false, false
}

// visit walks expression e collecting field accesses. lhs marks e as being
// written (assignment target).
func (c *accCollector) visit(e ast.Expr, write bool) {
	switch x := e.(type) {
	case nil:
	case *ast.ParenExpr:
		c.visit(x.X, write)
	case *ast.FuncLit:
		// body instrumented separately
	case *ast.SelectorExpr:
		s, isSel := info.Selections[x]
		if !isSel {
			return // qualified identifier pkg.Name
		}
		if s.Kind() == types.FieldVal {
			if isSyncType(typeOf(x)) {
				// sync objects are handled by the sync rewrites
				c.visit(x.X, false)
				return
			}
			if ok, tp := c.pathInfo(x); ok && tp {
				c.add(x, write)
			}
			c.visit(x.X, false)
			return
		}
		// method value / call receiver
		c.visit(x.X, false)
	case *ast.IndexExpr:
		// m[k] / s[i]; writes through a map index are writes of the map field
		t := typeOf(x.X)
		isMap := false
		if t != nil {
			_, isMap = t.Underlying().(*types.Map)
		}
		c.visit(x.X, write && isMap)
		c.visit(x.Index, false)
	case *ast.SliceExpr:
		c.visit(x.X, false)
		c.visit(x.Low, false)
		c.visit(x.High, false)
		c.visit(x.Max, false)
	case *ast.StarExpr:
		c.visit(x.X, false)
	case *ast.UnaryExpr:
		if x.Op == token.AND {
			// address-of: no access to the field itself; still visit the path prefix
			if sel, ok := x.X.(*ast.SelectorExpr); ok {
				c.visit(sel.X, false)
				return
			}
		}
		c.visit(x.X, false)
	case *ast.BinaryExpr:
		c.visit(x.X, false)
		if x.Op == token.LOR || x.Op == token.LAND {
			return // right operand is conditionally evaluated
		}
		c.visit(x.Y, false)
	case *ast.CallExpr:
		// element accesses: append(dst, src...) / copy(dst, src) and the byte
		// slices handed to Write / Sum / UnmarshalBinary (which read them)
		if fn, ok := x.Fun.(*ast.Ident); ok {
			if _, isBuiltin := info.Uses[fn].(*types.Builtin); isBuiltin {
				switch fn.Name {
				case "append":
					if len(x.Args) >= 1 {
						c.addElem(x.Args[0], true)
					}
					if len(x.Args) == 2 && x.Ellipsis.IsValid() {
						c.addElem(x.Args[1], false)
					}
				case "copy":
					if len(x.Args) == 2 {
						c.addElem(x.Args[0], true)
						c.addElem(x.Args[1], false)
					}
				}
			}
		}
		if sel, ok := x.Fun.(*ast.SelectorExpr); ok {
			switch sel.Sel.Name {
			case "Write", "Sum", "UnmarshalBinary":
				for _, a := range x.Args {
					c.addElem(a, false)
				}
			}
		}
		if fn, ok := x.Fun.(*ast.Ident); ok && len(x.Args) > 0 {
			switch fn.Name {
			case "delete":
				if _, isBuiltin := info.Uses[fn].(*types.Builtin); isBuiltin {
					c.visit(x.Args[0], true)
					for _, a := range x.Args[1:] {
						c.visit(a, false)
					}
					return
				}
			}
		}
		c.visit(x.Fun, false)
		for _, a := range x.Args {
			c.visit(a, false)
		}
	case *ast.TypeAssertExpr:
		c.visit(x.X, false)
	case *ast.CompositeLit:
		for _, el := range x.Elts {
			if kv, ok := el.(*ast.KeyValueExpr); ok {
				c.visit(kv.Value, false)
			} else {
				c.visit(el, false)
			}
		}
	case *ast.KeyValueExpr:
		c.visit(x.Value, false)
	}
}

func (c *accCollector) stmtHead(s ast.Stmt) {
	switch x := s.(type) {
	case *ast.ExprStmt:
		c.visit(x.X, false)
	case *ast.AssignStmt:
		for _, r := range x.Rhs {
			c.visit(r, false)
		}
		for _, l := range x.Lhs {
			if x.Tok == token.DEFINE {
				continue
			}
			c.visit(l, true)
		}
	case *ast.IncDecStmt:
		c.visit(x.X, true)
	case *ast.DeclStmt:
		if gd, ok := x.Decl.(*ast.GenDecl); ok {
			for _, sp := range gd.Specs {
				if vs, ok := sp.(*ast.ValueSpec); ok {
					for _, v := range vs.Values {
						c.visit(v, false)
					}
				}
			}
		}
	case *ast.ReturnStmt:
		for _, r := range x.Results {
			c.visit(r, false)
		}
	case *ast.DeferStmt:
		// receiver/args are evaluated now; the call itself later
		for _, a := range x.Call.Args {
			c.visit(a, false)
		}
	case *ast.GoStmt:
		for _, a := range x.Call.Args {
			c.visit(a, false)
		}
	case *ast.SendStmt:
		c.visit(x.Chan, false)
		c.visit(x.Value, false)
	case *ast.IfStmt:
		if x.Init != nil {
			c.stmtHead(x.Init)
		}
		c.visit(x.Cond, false)
	case *ast.ForStmt:
		if x.Init != nil {
			c.stmtHead(x.Init)
		}
		c.visit(x.Cond, false)
	case *ast.RangeStmt:
		c.visit(x.X, false)
	case *ast.SwitchStmt:
		if x.Init != nil {
			c.stmtHead(x.Init)
		}
		c.visit(x.Tag, false)
	case *ast.TypeSwitchStmt:
	case *ast.LabeledStmt:
		c.stmtHead(x.Stmt)
	}
}

func accessStmts(s ast.Stmt, scope ast.Node, pos token.Pos) []ast.Stmt {
	c := &accCollector{stmt: scope}
	c.stmtHead(s)
	var out []ast.Stmt
	for _, a := range c.out {
		fn := "R"
		if a.write {
			fn = "W"
		}
		out = append(out, &ast.ExprStmt{X: rtCall(fn, &ast.UnaryExpr{Op: token.AND, X: a.expr}, site(pos, "acc "+exprString(a.expr)))})
	}
	for _, a := range c.elem {
		fn := "RS"
		if a.write {
			fn = "WS"
		}
		out = append(out, &ast.ExprStmt{X: rtCall(fn, a.expr, site(pos, "acc elements-of-"+strings.ReplaceAll(exprString(a.expr), " ", "")))})
	}
	return out
}

// ---------------------------------------------------------------------------
// sync call rewrites (in place)

func rewriteCalls(n ast.Node) {
	ast.Inspect(n, func(n ast.Node) bool {
		call, ok := n.(*ast.CallExpr)
		if !ok {
			return true
		}
		// builtin close(ch)
		if fn, ok := call.Fun.(*ast.Ident); ok && fn.Name == "close" && len(call.Args) == 1 {
			if _, isBuiltin := info.Uses[fn].(*types.Builtin); isBuiltin {
				*call = *rtCall("ChanClose", call.Args[0], site(call.Pos(), "close"))
			}
			return true
		}
		sel, ok := call.Fun.(*ast.SelectorExpr)
		if !ok {
			return true
		}
		// atomic.X(&v, ...)
		if pk, ok := sel.X.(*ast.Ident); ok {
			if pn, ok := info.Uses[pk].(*types.PkgName); ok {
				switch pn.Imported().Path() {
				case "sync/atomic":
					name := sel.Sel.Name
					switch {
					case strings.HasPrefix(name, "Load"), strings.HasPrefix(name, "Store"),
						strings.HasPrefix(name, "Add"), strings.HasPrefix(name, "Swap"),
						strings.HasPrefix(name, "CompareAndSwap"):
						// wrap: verifrt.Atomic(&v, kind, site) evaluated as first arg via helper
						kind := 1 // write
						if strings.HasPrefix(name, "Load") {
							kind = 0
						}
						call.Args[0] = rtCall("AtomicPtr", call.Args[0], intLit(kind), site(call.Pos(), "atomic."+name))
					default:
						die("unsupported sync/atomic call %s at %s", name, fset.Position(call.Pos()))
					}
				case "context":
					die("unsupported use of package context at %s", fset.Position(call.Pos()))
				}
				return true
			}
		}
		s, ok := info.Selections[sel]
		if !ok || s.Kind() != types.MethodVal {
			return true
		}
		recv := named(s.Recv())
		m := sel.Sel.Name
		isLocker := recv == "sync.Mutex" || recv == "sync.RWMutex" || recv == "sync.Locker"
		switch {
		case isLocker && m == "Lock":
			*call = *rtCall("Lock", addr(sel.X), site(call.Pos(), "Lock"))
		case isLocker && m == "Unlock":
			*call = *rtCall("Unlock", addr(sel.X))
		case recv == "sync.RWMutex" && m == "RLock":
			*call = *rtCall("RLock", addr(sel.X), site(call.Pos(), "RLock"))
		case recv == "sync.RWMutex" && m == "RUnlock":
			*call = *rtCall("RUnlock", addr(sel.X))
		case (recv == "sync.Mutex" || recv == "sync.RWMutex") && m == "TryLock":
			*call = *rtCall("TryLock", addr(sel.X), site(call.Pos(), "TryLock"))
		case isLocker && (m == "TryRLock" || m == "RLocker"):
			die("unsupported %s.%s at %s", recv, m, fset.Position(call.Pos()))
		case strings.HasPrefix(recv, "sync/atomic.") && (m == "Load" || m == "Store" || m == "Swap" || m == "CompareAndSwap" || m == "Add"):
			kind := 1
			if m == "Load" {
				kind = 0
			}
			sel.X = rtCall("AtomicPtr", addr(sel.X), intLit(kind), site(call.Pos(), "atomic."+m))
		case recv == "sync.Cond" && m == "Wait":
			*call = *rtCall("CondWait", addr(sel.X), site(call.Pos(), "CondWait"))
		case recv == "sync.Cond" && m == "Broadcast":
			*call = *rtCall("CondWake", addr(sel.X), id("true"))
		case recv == "sync.Cond" && m == "Signal":
			*call = *rtCall("CondWake", addr(sel.X), id("false"))
		case recv == "sync.Pool" && m == "Get":
			*call = *rtCall("PoolGet", addr(sel.X), site(call.Pos(), "PoolGet"))
		case recv == "sync.Pool" && m == "Put":
			*call = *rtCall("PoolPut", append([]ast.Expr{addr(sel.X)}, call.Args...)...)
		case recv == "sync.WaitGroup" && m == "Add":
			*call = *rtCall("WGAdd", append([]ast.Expr{addr(sel.X)}, call.Args...)...)
		case recv == "sync.WaitGroup" && m == "Done":
			*call = *rtCall("WGDone", addr(sel.X))
		case recv == "sync.WaitGroup" && m == "Wait":
			*call = *rtCall("WGWait", addr(sel.X), site(call.Pos(), "WGWait"))
		case recv == "sync.WaitGroup":
			die("unsupported sync.WaitGroup.%s at %s", m, fset.Position(call.Pos()))
		case recv == "sync.Once" || recv == "sync.Map":
			die("unsupported %s at %s", recv, fset.Position(call.Pos()))
		}
		return true
	})
}

// rewriteRecv rewrites receive expressions <-ch (outside select comm clauses)
// into verifrt.ChanRecv helpers is not needed for blocking semantics (the real
// receive blocks durably under synctest); we only add a happens-before edge
// and a forced yield after it, which is done at statement level.
func containsRecv(n ast.Node) bool {
	found := false
	ast.Inspect(n, func(n ast.Node) bool {
		if _, ok := n.(*ast.FuncLit); ok {
			return false
		}
		if u, ok := n.(*ast.UnaryExpr); ok && u.Op == token.ARROW {
			found = true
		}
		return true
	})
	return found
}

func yieldStmt(pos token.Pos, kind string) ast.Stmt {
	return &ast.ExprStmt{X: rtCall("Yield", site(pos, kind))}
}

func rewriteGo(g *ast.GoStmt) ast.Stmt {
	if g.Call.Ellipsis.IsValid() {
		die("unsupported: go f(xs...) at %s", fset.Position(g.Pos()))
	}
	var pre []ast.Stmt
	fn := id("__vfn")
	pre = append(pre, &ast.AssignStmt{Lhs: []ast.Expr{fn}, Tok: token.DEFINE, Rhs: []ast.Expr{g.Call.Fun}})
	var args []ast.Expr
	for i, a := range g.Call.Args {
		v := id(fmt.Sprintf("__va%d", i))
		pre = append(pre, &ast.AssignStmt{Lhs: []ast.Expr{v}, Tok: token.DEFINE, Rhs: []ast.Expr{a}})
		args = append(args, v)
	}
	pre = append(pre, &ast.AssignStmt{Lhs: []ast.Expr{id("__vid")}, Tok: token.DEFINE, Rhs: []ast.Expr{rtCall("PreGo", site(g.Pos(), "go"))}})
	body := &ast.BlockStmt{List: []ast.Stmt{
		&ast.DeferStmt{Call: &ast.CallExpr{Fun: &ast.FuncLit{Type: &ast.FuncType{Params: &ast.FieldList{}}, Body: &ast.BlockStmt{List: []ast.Stmt{
			&ast.ExprStmt{X: rtCall("Exit", id("__vid"), &ast.CallExpr{Fun: id("recover")})},
		}}}}},
		&ast.ExprStmt{X: rtCall("Enter", id("__vid"))},
		&ast.ExprStmt{X: &ast.CallExpr{Fun: fn, Args: args}},
	}}
	pre = append(pre, &ast.GoStmt{Call: &ast.CallExpr{Fun: &ast.FuncLit{Type: &ast.FuncType{Params: &ast.FieldList{}}, Body: body}}})
	return &ast.BlockStmt{List: pre}
}

func blank(e ast.Expr) bool {
	if e == nil {
		return true
	}
	i, isID := e.(*ast.Ident)
	return isID && i.Name == "_"
}

func rewriteRange(r *ast.RangeStmt) ast.Stmt {
	t := typeOf(r.X)
	if t == nil {
		die("no type for range expression at %s", fset.Position(r.Pos()))
	}
	switch t.Underlying().(type) {
	case *types.Map:
	case *types.Chan:
		die("unsupported: range over channel at %s", fset.Position(r.Pos()))
		return r
	default:
		return r
	}
	k, v, ok := id("__vk"), id("__vv"), id("__vok")
	var pre []ast.Stmt
	lhsV := ast.Expr(v)
	if blank(r.Value) {
		lhsV = id("_")
	}
	pre = append(pre, &ast.AssignStmt{Lhs: []ast.Expr{lhsV, ok}, Tok: token.DEFINE, Rhs: []ast.Expr{&ast.IndexExpr{X: r.X, Index: k}}})
	pre = append(pre, &ast.IfStmt{Cond: &ast.UnaryExpr{Op: token.NOT, X: ok}, Body: &ast.BlockStmt{List: []ast.Stmt{&ast.BranchStmt{Tok: token.CONTINUE}}}})
	if !blank(r.Key) {
		pre = append(pre, &ast.AssignStmt{Lhs: []ast.Expr{r.Key}, Tok: r.Tok, Rhs: []ast.Expr{k}})
	}
	if !blank(r.Value) {
		pre = append(pre, &ast.AssignStmt{Lhs: []ast.Expr{r.Value}, Tok: r.Tok, Rhs: []ast.Expr{v}})
	}
	body := &ast.BlockStmt{List: append(pre, r.Body.List...)}
	return &ast.RangeStmt{Key: id("_"), Value: k, Tok: token.DEFINE, X: rtCall("MapOrder", r.X, site(r.Pos(), "maprange")), Body: body}
}

// commChan returns the channel expression of a comm clause statement.
func commChan(s ast.Stmt) ast.Expr {
	switch x := s.(type) {
	case *ast.ExprStmt:
		if u, ok := x.X.(*ast.UnaryExpr); ok && u.Op == token.ARROW {
			return u.X
		}
	case *ast.AssignStmt:
		if len(x.Rhs) == 1 {
			if u, ok := x.Rhs[0].(*ast.UnaryExpr); ok && u.Op == token.ARROW {
				return u.X
			}
		}
	case *ast.SendStmt:
		return x.Chan
	}
	return nil
}

func rewriteSelect(s *ast.SelectStmt) ast.Stmt {
	var comm []*ast.CommClause
	hasDefault := false
	for _, c := range s.Body.List {
		cc := c.(*ast.CommClause)
		if cc.Comm == nil {
			hasDefault = true
			continue
		}
		comm = append(comm, cc)
	}
	// every comm body starts with a forced yield + HB edge for a receive
	for _, cc := range comm {
		ch := commChan(cc.Comm)
		if ch == nil {
			die("unsupported comm clause at %s", fset.Position(cc.Pos()))
		}
		if _, isSend := cc.Comm.(*ast.SendStmt); isSend {
			die("unsupported: send in select at %s", fset.Position(cc.Pos()))
		}
		cc.Body = append([]ast.Stmt{&ast.ExprStmt{X: rtCall("ChanRecvd", ch, site(cc.Pos(), "recv"))}}, cc.Body...)
	}
	if hasDefault || len(comm) < 2 {
		return s
	}
	sw := &ast.SwitchStmt{Tag: rtCall("Select", site(s.Pos(), "select"), intLit(len(comm))), Body: &ast.BlockStmt{}}
	for i, cc := range comm {
		inner := &ast.SelectStmt{Body: &ast.BlockStmt{List: []ast.Stmt{
			&ast.CommClause{Comm: cc.Comm, Body: cc.Body},
			&ast.CommClause{Comm: nil, Body: []ast.Stmt{&ast.SelectStmt{Body: s.Body}}},
		}}}
		sw.Body.List = append(sw.Body.List, &ast.CaseClause{List: []ast.Expr{intLit(i)}, Body: []ast.Stmt{inner}})
	}
	if len(comm) != 2 {
		die("unsupported: select with %d comm clauses at %s (only the first choice is seeded)", len(comm), fset.Position(s.Pos()))
	}
	return sw
}

func rewriteList(list []ast.Stmt) []ast.Stmt {
	var out []ast.Stmt
	for _, s := range list {
		out = append(out, yieldStmt(s.Pos(), "stmt"))
		out = append(out, accessStmts(s, s, s.Pos())...)
		recv := false
		switch s.(type) {
		case *ast.ExprStmt, *ast.AssignStmt:
			recv = containsRecv(s)
		}
		var chans []ast.Expr
		if recv {
			ast.Inspect(s, func(n ast.Node) bool {
				if _, ok := n.(*ast.FuncLit); ok {
					return false
				}
				if u, ok := n.(*ast.UnaryExpr); ok && u.Op == token.ARROW {
					chans = append(chans, u.X)
				}
				return true
			})
		}
		out = append(out, rewriteStmt(s))
		for _, ch := range chans {
			out = append(out, &ast.ExprStmt{X: rtCall("ChanRecvd", ch, site(s.Pos(), "recv"))})
		}
	}
	return out
}

func rewriteBlock(b *ast.BlockStmt) {
	if b != nil {
		b.List = rewriteList(b.List)
	}
}

func rewriteFuncLits(n ast.Node) {
	if n == nil {
		return
	}
	ast.Inspect(n, func(n ast.Node) bool {
		if fl, ok := n.(*ast.FuncLit); ok {
			rewriteBlock(fl.Body)
			return false
		}
		return true
	})
}

func rewriteStmt(s ast.Stmt) ast.Stmt {
	switch x := s.(type) {
	case *ast.BlockStmt:
		rewriteBlock(x)
	case *ast.IfStmt:
		rewriteFuncLits(x.Cond)
		if x.Init != nil {
			rewriteFuncLits(x.Init)
		}
		rewriteBlock(x.Body)
		if x.Else != nil {
			x.Else = rewriteStmt(x.Else)
		}
	case *ast.ForStmt:
		if x.Init != nil {
			rewriteFuncLits(x.Init)
		}
		if x.Cond != nil {
			rewriteFuncLits(x.Cond)
		}
		if x.Post != nil {
			rewriteFuncLits(x.Post)
		}
		rewriteBlock(x.Body)
		// re-evaluated condition: record its accesses at the end of the body
		if x.Cond != nil {
			c := &accCollector{stmt: x}
			c.visit(x.Cond, false)
			for _, a := range c.out {
				x.Body.List = append(x.Body.List, &ast.ExprStmt{X: rtCall("R", &ast.UnaryExpr{Op: token.AND, X: a.expr}, site(x.Pos(), "acc "+exprString(a.expr)))})
			}
		}
	case *ast.RangeStmt:
		rewriteFuncLits(x.X)
		rewriteBlock(x.Body)
		return rewriteRange(x)
	case *ast.SwitchStmt:
		if x.Init != nil {
			rewriteFuncLits(x.Init)
		}
		if x.Tag != nil {
			rewriteFuncLits(x.Tag)
		}
		for _, c := range x.Body.List {
			cc := c.(*ast.CaseClause)
			cc.Body = rewriteList(cc.Body)
		}
	case *ast.TypeSwitchStmt:
		for _, c := range x.Body.List {
			cc := c.(*ast.CaseClause)
			cc.Body = rewriteList(cc.Body)
		}
	case *ast.SelectStmt:
		for _, c := range x.Body.List {
			cc := c.(*ast.CommClause)
			cc.Body = rewriteList(cc.Body)
		}
		return rewriteSelect(x)
	case *ast.LabeledStmt:
		x.Stmt = rewriteStmt(x.Stmt)
	case *ast.GoStmt:
		rewriteFuncLits(x.Call)
		return rewriteGo(x)
	default:
		rewriteFuncLits(s)
	}
	return s
}

func funcName(fd *ast.FuncDecl) string {
	if fd.Recv != nil && len(fd.Recv.List) == 1 {
		t := fd.Recv.List[0].Type
		if s, ok := t.(*ast.StarExpr); ok {
			t = s.X
		}
		if i, ok := t.(*ast.Ident); ok {
			return i.Name + "." + fd.Name.Name
		}
	}
	return fd.Name.Name
}

func instrumentDir(root, rel string, targets map[string]bool) {
	dir := filepath.Join(root, rel)
	if err := os.Chdir(dir); err != nil {
		die("%v", err)
	}
	ents, err := os.ReadDir(".")
	if err != nil {
		die("%v", err)
	}
	var files []*ast.File
	names := map[*ast.File]string{}
	for _, e := range ents {
		n := e.Name()
		if !strings.HasSuffix(n, ".go") || strings.HasSuffix(n, "_test.go") || strings.HasSuffix(n, "_debug.go") {
			continue
		}
		mode := parser.Mode(0)
		if !targets[n] {
			mode = parser.ParseComments // keep build constraints visible (unused)
		}
		f, err := parser.ParseFile(fset, n, nil, mode)
		if err != nil {
			die("parse %s: %v", n, err)
		}
		files = append(files, f)
		names[f] = n
	}
	for n := range targets {
		src, err := os.ReadFile(n)
		if err != nil {
			die("target %s/%s: %v", rel, n, err)
		}
		if strings.Contains(string(src), "//go:build") || strings.Contains(string(src), "// +build") {
			die("target %s/%s carries build constraints; not supported", rel, n)
		}
	}
	info = &types.Info{
		Types:      map[ast.Expr]types.TypeAndValue{},
		Selections: map[*ast.SelectorExpr]*types.Selection{},
		Uses:       map[*ast.Ident]types.Object{},
		Defs:       map[*ast.Ident]types.Object{},
	}
	conf := types.Config{Importer: importer.ForCompiler(fset, "source", nil)}
	if _, err := conf.Check("pkg", fset, files, info); err != nil {
		die("typecheck %s: %v", rel, err)
	}
	var order []*ast.File
	for _, f := range files {
		if targets[names[f]] {
			order = append(order, f)
		}
	}
	sort.Slice(order, func(i, j int) bool { return names[order[i]] < names[order[j]] })
	for _, f := range order {
		for _, d := range f.Decls {
			switch x := d.(type) {
			case *ast.FuncDecl:
				if x.Body == nil {
					continue
				}
				curFn = funcName(x)
				rewriteCalls(x) // in-place call rewrites first (they use type info of the original nodes)
				rewriteBlock(x.Body)
				funcs = append(funcs, curFn)
				fid := len(funcs) - 1
				x.Body.List = append([]ast.Stmt{
					&ast.DeferStmt{Call: rtCall("FuncExit", rtCall("FuncEnter", intLit(fid)))},
				}, x.Body.List...)
			case *ast.GenDecl:
				curFn = "<init>"
				rewriteCalls(x)
				rewriteFuncLits(x)
			}
		}
		imp := &ast.ImportSpec{Name: id("verifrt"), Path: &ast.BasicLit{Kind: token.STRING, Value: `"verifrt"`}}
		done := false
		for _, d := range f.Decls {
			if gd, ok := d.(*ast.GenDecl); ok && gd.Tok == token.IMPORT {
				gd.Specs = append(gd.Specs, imp)
				if !gd.Lparen.IsValid() {
					gd.Lparen = gd.Pos()
					gd.Rparen = gd.End()
				}
				done = true
				break
			}
		}
		if !done {
			f.Decls = append([]ast.Decl{&ast.GenDecl{Tok: token.IMPORT, Specs: []ast.Spec{imp}}}, f.Decls...)
		}
		out, err := os.Create(names[f])
		if err != nil {
			die("%v", err)
		}
		if err := printer.Fprint(out, token.NewFileSet(), f); err != nil {
			die("print %s: %v", names[f], err)
		}
		out.Close()
		fmt.Printf("instrumented %s/%s\n", rel, names[f])
	}
}

func main() {
	if len(os.Args) < 3 {
		die("usage: vinstr <copy-root> <reldir>:<file>[,<file>...] ...")
	}
	root, err := filepath.Abs(os.Args[1])
	if err != nil {
		die("%v", err)
	}
	for _, spec := range os.Args[2:] {
		i := strings.IndexByte(spec, ':')
		if i < 0 {
			die("bad spec %q", spec)
		}
		targets := map[string]bool{}
		for _, f := range strings.Split(spec[i+1:], ",") {
			targets[f] = true
		}
		instrumentDir(root, spec[:i], targets)
	}
	// generated tables
	var sb strings.Builder
	sb.WriteString("// Code generated by vinstr; DO NOT EDIT.\n\npackage stun\n\nimport (\n\t\"hash\"\n\n\t\"github.com/pion/stun/v3/internal/hmac\"\n\t\"verifrt\"\n)\n\n")
	sb.WriteString("func init() {\n\tverifrt.RegisterSites([]string{\n")
	for _, s := range sites {
		fmt.Fprintf(&sb, "\t\t%q,\n", s)
	}
	sb.WriteString("\t}, []string{\n")
	for _, s := range funcs {
		fmt.Fprintf(&sb, "\t\t%q,\n", s)
	}
	sb.WriteString("\t})\n}\n\n")
	sb.WriteString(`// Accessors for the internal hmac pool (engine E3).
func VerifAcquireSHA1(key []byte) hash.Hash   { return hmac.AcquireSHA1(key) }
func VerifPutSHA1(h hash.Hash)                { hmac.PutSHA1(h) }
func VerifAcquireSHA256(key []byte) hash.Hash { return hmac.AcquireSHA256(key) }
func VerifPutSHA256(h hash.Hash)              { hmac.PutSHA256(h) }

// VerifFinalize runs the client's finalizer (the path the runtime takes for an
// abandoned client).
func VerifFinalize(c *Client) { clientFinalizer(c) }
`)
	if err := os.WriteFile(filepath.Join(root, "verif_gen.go"), []byte(sb.String()), 0o644); err != nil {
		die("%v", err)
	}
	fmt.Printf("sites: %d funcs: %d\n", len(sites), len(funcs))
}
