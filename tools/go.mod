module veriftools

go 1.26
