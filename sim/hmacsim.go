package verifsim

type hmacEngine struct{ r *Run }

func (e *hmacEngine) Setup(r *Run)          { e.r = r }
func (e *hmacEngine) Env() []EnvEvent       { return nil }
func (e *hmacEngine) Check() *Violation     { return nil }
func (e *hmacEngine) Quiescent() bool       { return false }
func (e *hmacEngine) Finish() *Violation    { return nil }
func (e *hmacEngine) Stats() map[string]int { return nil }
func (e *hmacEngine) NonTrivial() bool       { return false }
func (e *hmacEngine) HistoryHash() uint64    { return 0 }
func (e *hmacEngine) Describe() any         { return nil }
