package verifsim

// Engine E3: the real pooled HMAC (internal/hmac, instrumented) used by 1..8
// tasks through the seeded simulated sync.Pool; every digest is compared with
// crypto/hmac over the task's own key and bytes.  Yields at every statement of
// hmac.go / pool.go let the scheduler hand a recycled object to another task
// at any point the code allows.

import (
	"bytes"
	chmac "crypto/hmac"
	"crypto/sha1" //nolint:gosec
	"crypto/sha256"
	"fmt"
	"hash"
	"strings"

	"github.com/pion/stun/v3"
	"verifrt"
)

type hmacEngine struct {
	r       *Run
	viol    *Violation
	stats   map[string]int
	nTasks  int
	nOps    int
	desc    []string
	spawned bool
	acq     int
	prevKey map[string][]byte // per task: the key buffer it handed to its previous Acquire
}

func (e *hmacEngine) Stats() map[string]int { return e.stats }
func (e *hmacEngine) NonTrivial() bool      { return e.r.Switches >= 2 || e.acq >= 2 }
func (e *hmacEngine) HistoryHash() uint64   { return hashName(strings.Join(e.desc, " ")) }
func (e *hmacEngine) Describe() any {
	return map[string]any{"tasks": e.nTasks, "ops_per_task": e.nOps, "pool_mode": e.r.Sim.PoolMode, "script": e.desc}
}

func (e *hmacEngine) fail(class, f string, a ...any) {
	if e.viol == nil {
		e.viol = &Violation{Property: "C18", Class: class, Msg: fmt.Sprintf(f, a...)}
		e.r.Logf("VIOLATION C18 %s: %s", class, e.viol.Msg)
	}
}

func (e *hmacEngine) Setup(r *Run) {
	e.r = r
	e.stats = map[string]int{}
	max := 4
	if r.Tier == "thorough" {
		max = 8
	}
	e.nTasks = 1 + r.Choose(max, "ntasks")
	e.nOps = 1 + r.Choose(6, "nops")
	r.Sim.PoolMode = []int{1, 1, 0}[r.Choose(3, "poolmode")]
	r.Sim.RaceCheck = true
	r.Sim.YieldInLock = false
	r.StayWeight = []int{1, 1, 3, 10}[r.Choose(4, "stay")]
	dens := []int{100, 50, 20}[r.Choose(3, "yield-density")]
	if dens < 100 {
		off := make([]bool, len(verifrt.SiteNames))
		x := uint64(r.Choose(1<<30, "site-mask-seed"))*2654435761 + 12345
		for i := range off {
			x ^= x << 13
			x ^= x >> 7
			x ^= x << 17
			off[i] = int(x%100) >= dens
		}
		r.Sim.SiteOff = off
	}
	r.Sim.Spawn("setup", func() {})
}

func (e *hmacEngine) drawKey() []byte {
	r := e.r
	var n int
	switch r.Choose(6, "keylen-kind") {
	case 0:
		n = 0
	case 1:
		n = 63 + r.Choose(3, "keylen") // 63, 64, 65: both sides of the block
	case 2:
		n = 1 + r.Choose(32, "keylen")
	case 3:
		n = 66 + r.Choose(235, "keylen") // long keys are hashed first
	case 4:
		n = 20
	default:
		n = r.Choose(301, "keylen")
	}
	k := make([]byte, n)
	// keys come in a few families with a common prefix, so that keys of
	// different lengths that agree on their first bytes (first block) occur
	s := byte(r.Choose(4, "keyfamily"))
	if r.Pct(25, "keyseed-any") {
		s = byte(r.Choose(256, "keyseed"))
	}
	for i := range k {
		k[i] = s + byte(i*31)
	}
	return k
}

func (e *hmacEngine) drawChunks() [][]byte {
	r := e.r
	var total int
	switch r.Choose(5, "msglen-kind") {
	case 0:
		total = 0
	case 1:
		total = 1 + r.Choose(64, "msglen")
	case 2:
		total = 55 + r.Choose(20, "msglen") // around the sha block/padding boundary
	case 3:
		total = r.Choose(4097, "msglen")
	default:
		total = 20 + r.Choose(200, "msglen")
	}
	data := make([]byte, total)
	s := byte(r.Choose(256, "msgseed"))
	for i := range data {
		data[i] = s ^ byte(i*7+i>>8)
	}
	var chunks [][]byte
	n := 1 + r.Choose(4, "nchunks")
	for i := 0; i < n && len(data) > 0; i++ {
		if i == n-1 {
			chunks = append(chunks, data)
			data = nil
			break
		}
		c := r.Choose(len(data)+1, "chunk")
		chunks = append(chunks, data[:c])
		data = data[c:]
	}
	if len(chunks) == 0 {
		chunks = [][]byte{{}}
	}
	if r.Pct(15, "trailing-empty-write") {
		chunks = append(chunks, []byte{}) // a zero-length Write after real data changes nothing
	}
	return chunks
}

func (e *hmacEngine) session(tk *verifrt.Task, sha256v bool) {
	r := e.r
	key := e.drawKey()
	newRef := func() hash.Hash {
		if sha256v {
			return chmac.New(sha256.New, key)
		}
		return chmac.New(sha1.New, key)
	}
	name := "sha1"
	if sha256v {
		name = "sha256"
	}
	e.acq++
	e.desc = append(e.desc, fmt.Sprintf("%s:acquire-%s(key=%d)", tk.Name, name, len(key)))
	r.Logf("%s acquire %s keylen=%d", tk.Name, name, len(key))
	verifrt.Yield(hsCaller)
	var h hash.Hash
	given := append([]byte(nil), key...) // the slice handed to the library; it must come back unmodified
	// a caller may keep one key buffer and overwrite it in place for the next
	// Acquire (same length, other key): the pooled object must not remember it
	if prev := e.prevKey[tk.Name]; len(prev) > 0 && len(prev) == len(key) && r.Pct(60, "reuse-key-buffer") {
		copy(prev, key)
		given = prev
		e.stats["probe_key_buffer_reused"]++
	}
	if e.prevKey == nil {
		e.prevKey = map[string][]byte{}
	}
	e.prevKey[tk.Name] = given
	if sha256v {
		h = stun.VerifAcquireSHA256(given)
	} else {
		h = stun.VerifAcquireSHA1(given)
	}
	if !bytes.Equal(given, key) {
		e.fail("caller-key-modified", "%s: Acquire%s modified the caller's %d-byte key slice (first difference at %d)", tk.Name, name, len(key), firstDiff(given, key))
	}
	if r.Pct(50, "caller-wipes-key") {
		// like crypto/hmac.New, Acquire must not keep a reference to the caller's
		// key: the caller may wipe or reuse its buffer right away
		for i := range given {
			given[i] = 0xEE
		}
	}
	ref := newRef()
	// digests returned by Sum belong to the caller (as with crypto/hmac): they are
	// looked at again after the object went on to do other things
	type keptSum struct{ got, want []byte }
	var kept []keptSum
	recheck := func(when string) {
		for i, k := range kept {
			if !bytes.Equal(k.got, k.want) {
				e.fail("digest-changed-after-return", "%s: the slice returned by Sum #%d of this session (HMAC-%s, key %d bytes) no longer holds the digest %s: now %x, was %x", tk.Name, i, name, len(key), when, k.got, k.want)
				return
			}
		}
	}
	rounds := 1 + r.Choose(3, "rounds")
	for round := 0; round < rounds; round++ {
		chunks := e.drawChunks()
		tot := 0
		for _, c := range chunks {
			verifrt.Yield(hsCaller)
			n, err := h.Write(c)
			if err != nil || n != len(c) {
				e.fail("write-result", "%s: Write returned (%d, %v) for %d bytes", tk.Name, n, err, len(c))
			}
			ref.Write(c)
			tot += len(c)
		}
		nsum := 1 + r.Choose(2, "nsum")
		for i := 0; i < nsum; i++ {
			verifrt.Yield(hsCaller)
			prefix := []byte{}
			if r.Pct(30, "sum-prefix") {
				prefix = []byte{1, 2, 3}
			}
			got := h.Sum(append([]byte(nil), prefix...))
			want := ref.Sum(append([]byte(nil), prefix...))
			e.desc = append(e.desc, fmt.Sprintf("%s:write(%d in %d)+sum", tk.Name, tot, len(chunks)))
			if !bytes.Equal(got, want) {
				e.fail("digest-mismatch", "%s: HMAC-%s over key of %d bytes and %d message bytes (round %d, sum %d): pooled object gave %x, crypto/hmac gives %x", tk.Name, name, len(key), tot, round, i, got, want)
			} else {
				kept = append(kept, keptSum{got, want})
			}
		}
		if h.Size() != ref.Size() || h.BlockSize() != ref.BlockSize() {
			e.fail("size-mismatch", "%s: Size/BlockSize %d/%d differ from crypto/hmac %d/%d", tk.Name, h.Size(), h.BlockSize(), ref.Size(), ref.BlockSize())
		}
		if round+1 < rounds {
			verifrt.Yield(hsCaller)
			if r.Pct(70, "reset") {
				h.Reset()
				ref.Reset()
				e.desc = append(e.desc, tk.Name+":reset")
			}
		}
	}
	if r.Pct(20, "reset-before-put") {
		h.Reset() // an object may go back to the pool right after a Reset
		e.desc = append(e.desc, tk.Name+":reset")
	}
	verifrt.Yield(hsCaller)
	if sha256v {
		stun.VerifPutSHA256(h)
	} else {
		stun.VerifPutSHA1(h)
	}
	e.desc = append(e.desc, tk.Name+":put")
	r.Logf("%s put", tk.Name)
	recheck("after later use of the object")
	verifrt.Yield(hsCaller)
	recheck("after the object was put back")
}

// integrity goes through the production call path MessageIntegrity.AddTo /
// Check -> newHMAC -> AcquireSHA1 ... PutSHA1.
func (e *hmacEngine) integrity(tk *verifrt.Task) {
	r := e.r
	key := e.drawKey()
	if len(key) == 0 {
		key = []byte("k")
	}
	var id [stun.TransactionIDSize]byte
	id[0] = byte(tk.ID)
	id[1] = byte(r.Choose(256, "idb"))
	soft := strings.Repeat("x", r.Choose(120, "software-len"))
	e.desc = append(e.desc, fmt.Sprintf("%s:integrity(key=%d,soft=%d)", tk.Name, len(key), len(soft)))
	verifrt.Yield(hsCaller)
	given2 := append([]byte(nil), key...) // the same slice is used for AddTo and for Check
	m, err := stun.Build(stun.NewTransactionIDSetter(id), stun.BindingRequest, stun.NewSoftware(soft), stun.MessageIntegrity(given2))
	if err != nil {
		e.fail("integrity-build", "%s: Build with MESSAGE-INTEGRITY failed: %v", tk.Name, err)
		return
	}
	if len(m.Raw) < 24 {
		e.fail("integrity-build", "%s: message too short", tk.Name)
		return
	}
	ref := chmac.New(sha1.New, key)
	ref.Write(m.Raw[:len(m.Raw)-24])
	want := ref.Sum(nil)
	if got := m.Raw[len(m.Raw)-20:]; !bytes.Equal(got, want) {
		e.fail("integrity-mismatch", "%s: MESSAGE-INTEGRITY value %x differs from crypto/hmac %x (key %d bytes)", tk.Name, got, want, len(key))
	}
	verifrt.Yield(hsCaller)
	if !bytes.Equal(given2, key) {
		e.fail("caller-key-modified", "%s: MessageIntegrity.AddTo modified the caller's %d-byte key", tk.Name, len(key))
	}
	if err := stun.MessageIntegrity(given2).Check(m); err != nil {
		e.fail("integrity-check", "%s: Check of a freshly built message failed: %v", tk.Name, err)
	}
}

// misput is a caller error: an object of one pool is put into the other. The
// library may reject it (it panics in the offender today); whatever it does,
// the other, correct users of the pools must keep getting correct MACs.
func (e *hmacEngine) misput(tk *verifrt.Task) {
	e.stats["fault_object_put_into_wrong_pool"]++
	e.desc = append(e.desc, tk.Name+":misput")
	h := stun.VerifAcquireSHA1([]byte("misput"))
	func() {
		defer func() { recover() }() //nolint
		stun.VerifPutSHA256(h)
	}()
}

func (e *hmacEngine) Env() []EnvEvent { return nil }

func (e *hmacEngine) Check() *Violation { return e.viol }

func (e *hmacEngine) Quiescent() bool {
	if e.spawned {
		return false
	}
	e.spawned = true
	r := e.r
	for i := 0; i < e.nTasks; i++ {
		r.Sim.Spawn(fmt.Sprintf("H%d", i), func() {
			tk := r.Sim.Cur()
			for j := 0; j < e.nOps; j++ {
				switch r.Pick([]int{10, 6, 4, 1}, "hmac-op") {
				case 0:
					e.session(tk, false)
				case 1:
					e.session(tk, true)
				case 2:
					e.integrity(tk)
				case 3:
					e.misput(tk)
				}
			}
		}, r.Sim.Tasks[0])
	}
	return true
}

func (e *hmacEngine) Finish() *Violation {
	if e.viol != nil {
		return e.viol
	}
	for _, tk := range e.r.Sim.Unfinished() {
		return &Violation{Property: "C18", Class: "task-stuck", Msg: fmt.Sprintf("task %s is %v at %s", tk.Name, tk.State, verifrt.SiteName(tk.Site))}
	}
	e.stats["acquisitions"] = e.acq
	return nil
}
