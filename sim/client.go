package verifsim

// Engine E1: the real stun.Client + real stun.Agent (+ real tickerCollector and
// system clock in the "default" configuration) over a simulated connection,
// network, server, clock and collector, with 1..N caller tasks.  Oracles for
// C10 (exactly-once ledger), C11 (wire log), C12 (reference router) and C15
// (close ledger) are all active in every run.

import (
	"bytes"
	"errors"
	"fmt"
	"io"
	"net"
	"os"
	"runtime"
	"sort"
	"strings"
	"time"

	"github.com/pion/stun/v3"
	"verifrt"
)

var (
	errInjWrite      = errors.New("injected write failure")
	errInjRead       = errors.New("injected read failure")
	errInjConnClose  = errors.New("injected connection close failure")
	errInjAgentClose = errors.New("injected agent close failure")
	errInjAgentStart = errors.New("injected agent re-registration failure")
	errConnClosed    = errors.New("sim connection closed")
	errReadWake      = errors.New("sim read interrupted after Close began (WithNoConnClose precondition)")
)

// pseudo yield sites of the harness
const (
	hsRead = -10 - iota
	hsWrite
	hsConnClose
	hsAgent
	hsClock
	hsCollector
	hsCaller
	hsHandler
)

type cTxKind int

const (
	txStart cTxKind = iota
	txDo
	txIndicate
)

var cTxKindNames = [...]string{"Start", "Do", "Indicate"}

type cCall struct {
	seq     int
	task    int
	err     error
	hasMsg  bool
	evID    [stun.TransactionIDSize]byte
	msgID   [stun.TransactionIDSize]byte
	raw     []byte
	when    time.Time
	fromCur *cDatagram
}

type cWrite struct {
	seq     int
	task    int
	when    time.Time
	lastNow time.Time // last Clock.Now() reading of the writing task (manual mode), zero otherwise
	n       int
	ok      bool
	equal   bool
	trigger *cCallback // timeout callback this write was made in (nil: Start's own write)
}

// cTx is the ledger entry of one Start / Do / Indicate call.
type cTx struct {
	idx              int
	kind             cTxKind
	id               [stun.TransactionIDSize]byte
	task             int
	snapshot         []byte
	size             int
	invoke           int // seq
	invokeAt         time.Time
	returned         bool
	retSeq           int
	ret              error
	calls            []cCall
	writes           []cWrite
	rtoMin           time.Duration
	rtoSet           []time.Duration
	limit            int  // n: retransmission limit in force
	afterClose       bool // began after the successful Close returned
	doCbDone         bool
	lb               []time.Time // lb[k]: lower bound of the clock reading taken for transmission k
	writeFailed      bool
	agentStartFailed bool
	preWriteMessage  bool // a message with this id reached the handler before the request had been written: no real network can produce that
	kc               bool // known-finding family K-c: a timeout callback for this id overlapped the processing of a datagram with this id or this transaction's own Start call
	kcB              bool // a timeout event for this id began before the transaction's own Start call had completed its first write
	kcA              bool // a datagram with this id was held / consumed by the reader while a timeout callback for the id was in progress
	firstWriteOK     bool
	cbBegun          int
	reuseOf          int
	protected        bool // the server answers and the network delivers that answer intact (nested Do from a handler)
}

func (t *cTx) name() string {
	return fmt.Sprintf("%s#%d(id=%x,size=%d)", cTxKindNames[t.kind], t.idx, t.id[8:], t.size)
}

func (t *cTx) ended() bool { return len(t.calls) > 0 || (t.returned && t.ret != nil) }

type cDatagram struct {
	data      []byte
	id        [stun.TransactionIDSize]byte
	decodes   bool
	kind      string
	readSeq   int
	inflight  *cTx // transaction definitely in flight with this id when Read returned
	possible  *cTx // transaction possibly in flight (Start in progress) when Read returned
	delivered int
	fallback  int
	closeSeen bool
	overlapCB bool
	protected bool
	reported  bool
}

type cCallback struct {
	id     [stun.TransactionIDSize]byte
	err    error
	task   int
	begin  int
	endSeq int
	tx     *cTx
}

// cSuspect: a response for an in-flight transaction was not delivered to it
// while the client was handling a timeout event for the same id. That is
// admissible iff that handling ends the transaction (the final timeout won the
// race and the response is "late"); it is a violation if the handling merely
// retransmits. Judged when the callback returns.
type cSuspect struct {
	tx    *cTx
	d     *cDatagram
	cb    *cCallback
	class string
	msg   string
}

type cClose struct {
	task   int
	invoke int
	ret    int
	done   bool
	err    error
}

type cSetRTO struct {
	v      time.Duration
	invoke int
	ret    int
	done   bool
}

type clientEngine struct {
	r            *Run
	client       *stun.Client
	conn         *simConn
	agent        *wrapAgent
	viol         *Violation
	violTx       *cTx
	violDatagram *cDatagram
	finishing    *cDatagram
	stats        map[string]int

	// configuration
	manual                                bool
	skew                                  time.Duration
	collNoWait                            bool
	collTwo                               bool
	noConnClose                           bool
	noRetransmit                          bool
	hasFallback                           bool
	rto0                                  time.Duration
	rate                                  time.Duration
	nCallers                              int
	opsPer                                int
	lossPct, dupPct, corruptPct, spontPct int
	writeFailPct, readFailPct             int
	closeErrConn, closeErrAgent           bool
	connCloseErr                          error
	writeErr                              error
	bigPct                                int
	avoidKnown                            bool
	closePct                              int
	chaosCap                              int
	cfgDesc                               map[string]any

	// time (manual mode)
	now     time.Time
	lastNow map[int]time.Time
	coll    *simCollector

	// network
	pending    []*cDatagram
	inbox      []*cDatagram
	spontLeft  int
	cur        *cDatagram // datagram the reader is processing
	readerTask int
	readsBegun int

	// ledgers
	txs                 []*cTx
	byID                map[[stun.TransactionIDSize]byte]*cTx
	setrtos             []*cSetRTO
	closes              []*cClose
	closeOK             *cClose
	closeBegan          bool
	anyCloseReturned    bool
	cbActive            map[[stun.TransactionIDSize]byte]int
	cbLive              map[[stun.TransactionIDSize]byte][]*cCallback
	suspects            []cSuspect
	cbStack             map[int][]*cCallback
	aimClock, aimWrite  int // moments an aimed Close waits for (see aimClose)
	fallbackCalls       []cCall
	idCounter           int
	zeroIDUsed          bool
	armedWriteFail      int
	armedReadFail       int
	armedAgentStartFail int
	armedWriteBlock     int
	writeBlocksLeft     int

	phase           int
	callers         []*verifrt.Task
	healRounds      int
	clockProgress   int
	clockIdle       int
	marathon        bool
	burst           bool
	reentPct        int
	reentered       int
	nestedDo        int
	healClock       int
	idleRounds      int
	lastProgress    int
	opsDesc         []string
	postDone        bool
	closerSpawned   bool
	advanced        time.Duration
	kcSeen          bool
	kcDoubleRelease bool // a stale owner of an overlapped transaction took an error path after someone else completed it: it releases the pooled object a second time
}

const (
	phSetup = iota
	phChaos
	phHeal
	phClose
	phPost
	phEnd
)

func (e *clientEngine) Stats() map[string]int { return e.stats }

func (e *clientEngine) NonTrivial() bool { return e.r.Switches >= 2 && len(e.txs) >= 1 }

func (e *clientEngine) HistoryHash() uint64 { return hashName(strings.Join(e.opsDesc, " ")) }

func (e *clientEngine) Describe() any {
	return map[string]any{"config": e.cfgDesc, "ops": capList(e.opsDesc, 80)}
}

func (e *clientEngine) fail(tx *cTx, prop, class, f string, a ...any) {
	if e.viol == nil {
		e.viol = &Violation{Property: prop, Class: class, Msg: fmt.Sprintf(f, a...)}
		e.violTx = tx
		e.violDatagram = e.cur
		if e.violDatagram == nil {
			e.violDatagram = e.finishing
		}
		e.r.Logf("VIOLATION %s %s: %s", prop, class, e.viol.Msg)
	}
}

// exactClock: the harness sees every clock reading the client takes.
func (e *clientEngine) exactClock() bool { return e.manual || e.skew != 0 }

func (e *clientEngine) vnow() time.Time {
	if e.manual {
		return e.now
	}
	return time.Now().Add(-e.skew) // skew != 0: WithClock over the real ticker collector
}

// ---------------------------------------------------------------------------
// simulated clock / collector (manual configuration)

type simClock struct{ e *clientEngine }

func (c simClock) Now() time.Time {
	e := c.e
	verifrt.Yield(hsClock)
	now := e.vnow()
	if tk := e.r.Sim.Cur(); tk != nil {
		e.lastNow[tk.ID] = now
		if st := e.cbStack[tk.ID]; len(st) > 0 && errors.Is(st[len(st)-1].err, stun.ErrTransactionTimeOut) {
			e.aimClock++ // the clock is read inside the handling of a timeout: a retransmission is being prepared
		}
	}
	return now
}

type simCollector struct {
	e        *clientEngine
	f        func(time.Time)
	ticks    int
	closed   bool
	task     *verifrt.Task
	exited   bool
	startErr error
	noWait   bool
	two      bool
	task2    *verifrt.Task
	exited2  bool
}

func (c *simCollector) Start(rate time.Duration, f func(now time.Time)) error {
	c.f = f
	e := c.e
	parent := e.r.Sim.Cur()
	loop := func(done *bool) func() {
		return func() {
			for {
				e.r.Sim.BlockUntil("tick", hsCollector, func() bool { return c.ticks > 0 || c.closed })
				if c.closed {
					e.r.Sim.HBRelease(uintptr(0xC011EC7))
					*done = true
					return
				}
				c.ticks--
				now := e.now
				e.r.Logf("collector: tick f(%v)", now.Sub(baseTime))
				c.f(now)
			}
		}
	}
	c.task = e.r.Sim.Spawn("collector", loop(&c.exited), parent)
	c.exited2 = true
	if c.two {
		// "It is safe to call Collect concurrently": a user-driven collector may
		// deliver ticks from more than one goroutine
		c.exited2 = false
		c.task2 = e.r.Sim.Spawn("collector2", loop(&c.exited2), parent)
	}
	return nil
}

func (c *simCollector) Close() error {
	verifrt.Yield(hsCollector)
	c.closed = true
	if c.noWait {
		// a user-driven collector (ticks come from the application): Close only
		// stops future ticks, a collection in progress finishes on its own
		return nil
	}
	// like the real collector: wait until the goroutine has exited
	c.e.r.Sim.BlockUntil("collector-close", hsCollector, func() bool { return c.exited && c.exited2 })
	c.e.r.Sim.HBAcquire(uintptr(0xC011EC7))
	return nil
}

var baseTime = time.Date(2000, 1, 1, 0, 0, 0, 0, time.UTC)

// ---------------------------------------------------------------------------
// delegating agent wrapper (records the agent-level trace; injects Close error)

type wrapAgent struct {
	e     *clientEngine
	inner *stun.Agent
}

func (a *wrapAgent) Process(m *stun.Message) error {
	verifrt.Yield(hsAgent)
	return a.inner.Process(m)
}

func (a *wrapAgent) Close() error {
	verifrt.Yield(hsAgent)
	err := a.inner.Close()
	if a.e.closeErrAgent && err == nil {
		a.e.stats["fault_agent_close_error"]++
		return errInjAgentClose
	}
	return err
}

func (a *wrapAgent) Start(id [stun.TransactionIDSize]byte, deadline time.Time) error {
	verifrt.Yield(hsAgent)
	e := a.e
	// a failing re-registration (only inside the handling of a timeout event
	// for this id): "the error of a failed retransmission"
	if e.armedAgentStartFail > 0 {
		if tk := e.r.Sim.Cur(); tk != nil {
			if st := e.cbStack[tk.ID]; len(st) > 0 && st[len(st)-1].id == id && errors.Is(st[len(st)-1].err, stun.ErrTransactionTimeOut) {
				e.armedAgentStartFail--
				e.stats["fault_agent_reregistration_error"]++
				if tx := e.byID[id]; tx != nil {
					tx.agentStartFailed = true
					if tx.kc && tx.ended() {
						e.kcDoubleRelease = true
					}
				}
				return errInjAgentStart
			}
		}
	}
	return a.inner.Start(id, deadline)
}

func (a *wrapAgent) Stop(id [stun.TransactionIDSize]byte) error {
	verifrt.Yield(hsAgent)
	return a.inner.Stop(id)
}

func (a *wrapAgent) Collect(t time.Time) error {
	verifrt.Yield(hsAgent)
	return a.inner.Collect(t)
}

func (a *wrapAgent) SetHandler(h stun.Handler) error {
	e := a.e
	return a.inner.SetHandler(func(ev stun.Event) {
		tk := e.r.Sim.Cur()
		cb := &cCallback{id: ev.TransactionID, err: ev.Error, begin: e.r.Seq()}
		if tk != nil {
			cb.task = tk.ID
			e.cbStack[tk.ID] = append(e.cbStack[tk.ID], cb)
		}
		isTimeout := errors.Is(ev.Error, stun.ErrTransactionTimeOut)
		if isTimeout {
			if e.cbActive[ev.TransactionID] > 0 {
				// two timeout events of one transaction are being handled at the same
				// time (ticks delivered from two goroutines, the first one stalled):
				// their writes can reach the connection in either order, so
				// "transmission k" is not well defined; the schedule clauses are not
				// evaluated for this transaction (bytes and count still are)
				if tx := e.byID[ev.TransactionID]; tx != nil {
					tx.kcB = true
					e.stats["probe_overlapping_timeout_handling_of_one_transaction"]++
				}
			}
			e.cbActive[ev.TransactionID]++
			e.cbLive[ev.TransactionID] = append(e.cbLive[ev.TransactionID], cb)
			cb.tx = e.byID[ev.TransactionID]
			if e.cur != nil && e.cur.decodes && e.cur.id == ev.TransactionID {
				// the reader is in the middle of processing a datagram with this id
				e.cur.overlapCB = true
				if cb.tx != nil {
					cb.tx.kc = true
					cb.tx.kcA = true
				}
				e.kcSeen = true
			}
			if tx := cb.tx; tx != nil {
				tx.cbBegun++
				if e.inStartWindow(tx) {
					// the transaction's own Start call has not finished its write / rollback yet
					tx.kc = true
					tx.kcB = true
					e.kcSeen = true
					e.stats["probe_timeout_during_start_call"]++
				}
			}
		}
		e.r.Logf("agent event id=%x err=%v msg=%v", ev.TransactionID[8:], ev.Error, ev.Message != nil)
		h(ev)
		if isTimeout {
			e.cbActive[ev.TransactionID]--
			l := e.cbLive[ev.TransactionID]
			for i, x := range l {
				if x == cb {
					e.cbLive[ev.TransactionID] = append(l[:i:i], l[i+1:]...)
					break
				}
			}
			e.resolveSuspects(cb)
		}
		cb.endSeq = e.r.Seq()
		if tk != nil {
			st := e.cbStack[tk.ID]
			e.cbStack[tk.ID] = st[:len(st)-1]
		}
	})
}

// ---------------------------------------------------------------------------
// simulated connection

type simConn struct {
	e          *clientEngine
	closed     bool
	closeCalls int
}

func (c *simConn) Read(b []byte) (int, error) {
	e := c.e
	tk := e.r.Sim.Cur()
	e.finishDatagram()
	verifrt.Yield(hsRead)
	if tk != nil {
		e.readerTask = tk.ID
	}
	e.readsBegun++
	if e.armedReadFail > 0 {
		e.armedReadFail--
		e.stats["fault_read_error"]++
		// what a connection reports is its own business (a socket closed by its
		// owner, a deadline, EOF on a stream): the client must treat them alike
		rerr := []error{errInjRead, &net.OpError{Op: "read", Net: "udp", Err: net.ErrClosed}, io.ErrClosedPipe, io.EOF,
			&net.OpError{Op: "read", Net: "udp", Err: os.ErrDeadlineExceeded}}[e.r.Choose(5, "rerr-kind")]
		e.r.Logf("read: injected failure (%v)", rerr)
		return 0, rerr
	}
	e.r.Sim.BlockUntil("read", hsRead, func() bool {
		if c.closed {
			return true
		}
		if len(e.inbox) > 0 {
			return true
		}
		return e.noConnClose && e.closerWaiting()
	})
	if len(e.inbox) > 0 && !c.closed {
		d := e.inbox[0]
		e.inbox = e.inbox[1:]
		n := copy(b, d.data)
		if n < len(d.data) && len(d.data) <= 1024 {
			// C12 quantifies over datagrams up to the client's 1024-byte read buffer:
			// such a datagram must reach the decoder whole
			e.fail(nil, "C12", "read-buffer-too-small", "the reader offered a %d-byte buffer for a %d-byte datagram (%s): datagrams up to 1024 bytes must be read whole", len(b), len(d.data), d.kind)
		}
		if n < len(d.data) {
			// the reader's buffer is smaller than the datagram: what it sees is the truncation
			d = &cDatagram{data: append([]byte(nil), d.data[:n]...), kind: d.kind + "+truncated-by-read"}
			e.classify(d)
		}
		d.readSeq = e.r.Seq()
		d.closeSeen = e.closeBegan
		if d.decodes {
			if tx := e.byID[d.id]; tx != nil && tx.kind != txIndicate && len(tx.calls) == 0 && !(tx.returned && tx.ret != nil) {
				if tx.returned {
					d.inflight = tx
				} else {
					d.possible = tx
				}
				if e.cbActive[d.id] > 0 {
					d.overlapCB = true
					tx.kc = true
					tx.kcA = true
					e.kcSeen = true
					e.stats["probe_response_in_retransmit_window"]++
				}
			}
		}
		e.cur = d
		e.r.Logf("read: %s len=%d id=%x decodes=%v", d.kind, n, d.id[8:], d.decodes)
		return n, nil
	}
	if c.closed {
		e.r.Logf("read: closed")
		return 0, errConnClosed
	}
	e.r.Logf("read: woken after Close began")
	return 0, errReadWake
}

// closerWaiting: some task that called Close is blocked in a real operation
// (wg.Wait for the reader) -- the moment from which, under WithNoConnClose,
// the precondition "Read eventually returns" is honoured by the simulator.
func (e *clientEngine) closerWaiting() bool {
	for _, c := range e.closes {
		if !c.done {
			tk := e.r.Sim.Tasks[c.task]
			if tk.State == verifrt.Running && tk.InFunc("Client.Close") && !tk.InFunc("tickerCollector.Close") {
				return true
			}
		}
	}
	return false
}

func (c *simConn) Write(b []byte) (int, error) {
	e := c.e
	tk := e.r.Sim.Cur()
	seq := e.r.Seq()
	now := e.vnow()
	w := cWrite{seq: seq, when: now, n: len(b)}
	if tk != nil {
		w.task = tk.ID
		w.lastNow = e.lastNow[tk.ID]
		if st := e.cbStack[tk.ID]; len(st) > 0 {
			w.trigger = st[len(st)-1]
		}
	}
	data := append([]byte(nil), b...)
	var tx *cTx
	if len(data) >= 20 {
		var id [stun.TransactionIDSize]byte
		copy(id[:], data[8:20])
		tx = e.byID[id]
	}
	if w.trigger != nil && (tx == nil || w.trigger.id != tx.id) {
		w.trigger = nil // a write made inside some other transaction's callback (re-entrant handler)
	}
	e.r.Logf("write: len=%d by task %d tx=%v", len(b), w.task, txName(tx))
	e.onWriteBegin(tx, &w, data)
	verifrt.Yield(hsWrite)
	if e.armedWriteFail > 0 {
		e.armedWriteFail--
		e.stats["fault_write_error"]++
		if tx != nil && tx.kc && w.trigger != nil && tx.ended() {
			e.kcDoubleRelease = true
		}
		if tx != nil {
			tx.writeFailed = true
			tx.writes[len(tx.writes)-1].ok = false
		}
		if !c.closed && e.r.Pct(35, "late-write-failure") {
			// the datagram went out (the server sees it and may answer) but the
			// connection reports an error afterwards
			e.stats["fault_write_error_after_send"]++
			e.r.Logf("write: sent, failure reported late")
			e.serve(data)
			verifrt.Yield(hsWrite)
			verifrt.Yield(hsWrite)
			return len(b), e.writeErr
		}
		e.r.Logf("write: injected failure")
		return 0, e.writeErr
	}
	if e.armedWriteBlock > 0 && !c.closed && !e.noConnClose && w.trigger == nil && tk != nil && len(e.cbStack[tk.ID]) == 0 && strings.HasPrefix(tk.Name, "C") {
		// (only a caller's own first write: a retransmission blocked for ever
		// inside the collector goroutine would keep Close waiting for the
		// collector - the property's preconditions do not cover writes that never
		// return, see DESIGN 14)
		// a write that blocks (full socket buffer, peer not reading) until the
		// connection is closed, and then fails
		e.armedWriteBlock--
		e.stats["fault_write_blocks_until_conn_closed"]++
		e.r.Logf("write: blocks until the connection is closed")
		if tx != nil {
			tx.writeFailed = true
			tx.writes[len(tx.writes)-1].ok = false
		}
		e.r.Sim.BlockUntil("write-blocked", hsWrite, func() bool { return c.closed })
		return 0, errConnClosed
	}
	if c.closed {
		return 0, errConnClosed
	}
	if tx != nil && len(tx.writes) == 1 {
		tx.firstWriteOK = true
	}
	e.serve(data)
	return len(b), nil
}

func txName(t *cTx) string {
	if t == nil {
		return "<none>"
	}
	return t.name()
}

func (c *simConn) Close() error {
	e := c.e
	verifrt.Yield(hsConnClose)
	c.closeCalls++
	e.r.Logf("conn.Close #%d", c.closeCalls)
	if e.noConnClose {
		e.fail(nil, "C15", "conn-closed-despite-noconnclose", "Connection.Close was called although WithNoConnClose was given")
	}
	if c.closeCalls > 1 {
		e.fail(nil, "C15", "conn-closed-twice", "Connection.Close was called %d times", c.closeCalls)
	}
	c.closed = true
	if e.closeErrConn {
		e.stats["fault_conn_close_error"]++
		return e.connCloseErr
	}
	return nil
}

// ---------------------------------------------------------------------------
// server + network

func (e *clientEngine) classify(d *cDatagram) {
	// The harness's own framing check (RFC 5389 header, magic cookie, declared
	// length within the datagram, attribute TLVs with padding inside the declared
	// length) decides what counts as decodable; the library's decoder is only
	// cross-checked against it.
	id, ok := frameOK(d.data)
	d.decodes, d.id = ok, id
	var m stun.Message
	m.Raw = append([]byte(nil), d.data...)
	if err := m.Decode(); (err == nil) != ok {
		e.stats["probe_decoder_disagrees_with_harness_framing"]++
	}
}

// frameOK is an independent implementation of the framing rules.
func frameOK(b []byte) (id [stun.TransactionIDSize]byte, ok bool) {
	if len(b) < 20 {
		return id, false
	}
	if b[4] != 0x21 || b[5] != 0x12 || b[6] != 0xA4 || b[7] != 0x42 {
		return id, false
	}
	size := int(b[2])<<8 | int(b[3])
	if len(b) < 20+size {
		return id, false
	}
	body := b[20 : 20+size]
	for len(body) > 0 {
		if len(body) < 4 {
			return id, false
		}
		alen := int(body[2])<<8 | int(body[3])
		padded := (alen + 3) &^ 3
		body = body[4:]
		if len(body) < padded {
			return id, false
		}
		body = body[padded:]
	}
	copy(id[:], b[8:20])
	return id, true
}

func (e *clientEngine) serve(req []byte) {
	r := e.r
	var m stun.Message
	m.Raw = append([]byte(nil), req...)
	if err := m.Decode(); err != nil {
		return
	}
	if m.Type.Class != stun.ClassRequest {
		return
	}
	ptx := e.byID[m.TransactionID]
	n := r.Pick([]int{3, 5, 1}, "server-responses") // 0, 1 or 2 responses
	if ptx != nil && ptx.protected && n == 0 {
		n = 1
	}
	if e.marathon {
		n = 1 + r.Pick([]int{20, 1}, "server-responses-m")
	}
	if e.burst && !(ptx != nil && ptx.protected) {
		n = 0
	}
	for i := 0; i < n; i++ {
		pad := 0
		switch r.Choose(4, "resp-size") {
		case 1:
			pad = r.Choose(200, "resp-pad")
		case 2:
			pad = 700 + r.Choose(290, "resp-pad-big")
		}
		setters := []stun.Setter{stun.NewTransactionIDSetter(m.TransactionID), stun.BindingSuccess}
		if !r.Pct(15, "resp-header-only") {
			setters = append(setters, &stun.XORMappedAddress{IP: []byte{10, 0, 0, byte(1 + i)}, Port: 1000 + len(e.pending)})
		}
		if pad > 0 {
			setters = append(setters, stun.NewSoftware(strings.Repeat("s", pad%700)))
			if pad >= 700 {
				setters = append(setters, stun.NewRealm(strings.Repeat("r", 700)))
			}
		}
		// a varying number of further attributes
		for j, n := 0, r.Pick([]int{6, 2, 1, 1, 1}, "resp-extra-attrs"); j < n; j++ {
			setters = append(setters, stun.RawAttribute{Type: stun.AttrType(0x8200 + j), Value: []byte{byte(j), 1, 2, 3, 4}[:1+j]})
		}
		resp, err := stun.Build(setters...)
		if err != nil {
			panic(&harnessPanic{"server build: " + err.Error()})
		}
		if r.Pct(8, "resp-exact-size") {
			// total size on both sides of the reader's buffer size
			target := 1012 + 4*r.Choose(6, "resp-exact") // 1012 .. 1032
			if need := target - len(resp.Raw) - 4; need >= 0 {
				resp.Add(stun.AttrType(0x8300), make([]byte, need))
			}
		}
		d := &cDatagram{data: append([]byte(nil), resp.Raw...), kind: "response"}
		if ptx != nil && ptx.protected && i == 0 {
			d.protected = true
			if len(d.data) > 1000 {
				d.data = d.data[:0]
				small := stun.MustBuild(stun.NewTransactionIDSetter(m.TransactionID), stun.BindingSuccess)
				d.data = append(d.data, small.Raw...)
			}
		}
		e.classify(d)
		e.pending = append(e.pending, d)
	}
}

func (e *clientEngine) spontaneous() {
	r := e.r
	var d *cDatagram
	if r.Pct(10, "garbage-burst") {
		// a burst of undecodable datagrams in a row
		n := 3 + r.Choose(30, "burst-len")
		for i := 0; i < n; i++ {
			var g []byte
			switch r.Choose(3, "burst-kind") {
			case 0:
				g = []byte{byte(i), 1, 2}
			case 1: // STUN-like header with a bad cookie
				g = make([]byte, 20)
				g[1] = 1
			default: // valid header, attribute running past the end
				m := stun.MustBuild(stun.NewTransactionIDSetter(e.freshID()), stun.BindingSuccess, stun.NewSoftware("x"))
				g = append([]byte(nil), m.Raw[:len(m.Raw)-2]...)
			}
			d := &cDatagram{data: g, kind: "burst-garbage"}
			e.classify(d)
			e.inbox = append(e.inbox, d)
		}
		e.stats["fault_garbage_burst"]++
		return
	}
	switch r.Choose(5, "spont-kind") {
	case 0: // indication with a fresh id
		m := stun.MustBuild(stun.NewTransactionIDSetter(e.freshID()), stun.NewType(stun.MethodBinding, stun.ClassIndication))
		d = &cDatagram{data: append([]byte(nil), m.Raw...), kind: "indication"}
	case 1: // success response with an id nobody uses
		m := stun.MustBuild(stun.NewTransactionIDSetter(e.freshID()), stun.BindingSuccess)
		d = &cDatagram{data: append([]byte(nil), m.Raw...), kind: "unknown-id-response"}
	case 2: // garbage
		n := r.Choose(64, "garbage-len")
		g := make([]byte, n)
		for i := range g {
			g[i] = byte(r.Choose(256, "garbage"))
		}
		d = &cDatagram{data: g, kind: "garbage"}
	case 3: // response for an in-flight id with one bit of the id flipped
		var base *cTx
		for _, t := range e.txs {
			if t.kind != txIndicate && !t.ended() {
				base = t
			}
		}
		id := e.freshID()
		if base != nil {
			id = base.id
			id[r.Choose(12, "flip-byte")] ^= 1 << uint(r.Choose(8, "flip-bit"))
			if e.byID[id] != nil {
				id = e.freshID()
			}
		}
		m := stun.MustBuild(stun.NewTransactionIDSetter(id), stun.BindingSuccess)
		d = &cDatagram{data: append([]byte(nil), m.Raw...), kind: "one-bit-off-id-response"}
		if base != nil && base.firstWriteOK && r.Pct(35, "odd-class-same-id") { // only ids the network has seen: a datagram can not carry the id of a request that was never written
			// a message of another class (indication, request, error response)
			// that carries the id of a transaction in flight: it is "the message
			// with the same id" and completes that transaction
			classes := []stun.MessageClass{stun.ClassIndication, stun.ClassRequest, stun.ClassErrorResponse}
			cl := classes[r.Choose(len(classes), "odd-class")]
			m := stun.MustBuild(stun.NewTransactionIDSetter(base.id), stun.NewType(stun.MethodBinding, cl))
			d = &cDatagram{data: append([]byte(nil), m.Raw...), kind: "same-id-" + cl.String()}
		}
	case 4: // late / duplicate response for a finished transaction
		var base *cTx
		for _, t := range e.txs {
			if t.kind != txIndicate && len(t.calls) > 0 {
				base = t
			}
		}
		id := e.freshID()
		if base != nil && e.byID[base.id] == base {
			id = base.id
		}
		m := stun.MustBuild(stun.NewTransactionIDSetter(id), stun.BindingSuccess)
		d = &cDatagram{data: append([]byte(nil), m.Raw...), kind: "late-response"}
	}
	e.classify(d)
	e.stats["fault_spontaneous_"+d.kind]++
	e.inbox = append(e.inbox, d)
}

func (e *clientEngine) corrupt(d *cDatagram) *cDatagram {
	r := e.r
	data := append([]byte(nil), d.data...)
	kind := ""
	switch r.Choose(4, "corrupt-kind") {
	case 0:
		if len(data) > 0 {
			i := r.Choose(len(data), "flip-pos")
			data[i] ^= 1 << uint(r.Choose(8, "flip-bit"))
		}
		kind = "bitflip"
	case 1:
		data = data[:r.Choose(len(data)+1, "trunc")]
		kind = "truncated"
	case 2:
		if len(data) >= 8 {
			data[4] ^= 0xff
		}
		kind = "bad-cookie"
	case 3:
		data = append(data, make([]byte, 1+r.Choose(400, "extend"))...)
		kind = "extended"
	}
	n := &cDatagram{data: data, kind: d.kind + "+" + kind}
	e.classify(n)
	e.stats["fault_corrupt_"+kind]++
	return n
}

func (e *clientEngine) freshID() [stun.TransactionIDSize]byte {
	e.idCounter++
	if !e.zeroIDUsed && e.idCounter > 1 && e.r.Pct(3, "zero-id") {
		e.zeroIDUsed = true
		return [stun.TransactionIDSize]byte{} // the all-zero id is an id like any other
	}
	var id [stun.TransactionIDSize]byte
	id[0] = 0x5A
	id[10] = byte(e.idCounter >> 8)
	id[11] = byte(e.idCounter)
	// families differing in one bit
	if e.idCounter%3 == 0 {
		id[5] = 1 << uint(e.idCounter%8)
	}
	return id
}

// ---------------------------------------------------------------------------
// oracles on writes (C11) and on datagram processing (C12)

func (e *clientEngine) onWriteBegin(tx *cTx, w *cWrite, data []byte) {
	if e.closeOK != nil && e.closeOK.done && w.trigger != nil && !e.lateCollectorTask() {
		e.fail(tx, "C11", "retransmit-after-close", "a retransmission of %d bytes begins after Close returned (tx %s)", len(data), txName(tx))
	}
	if tx == nil {
		e.fail(nil, "C11", "write-unattributable", "a write of %d bytes carries no transaction id of any request the callers started: % x", len(data), head(data, 24))
		return
	}
	w.ok = true
	e.aimWrite++
	w.equal = bytes.Equal(data, tx.snapshot)
	k := len(tx.writes)
	tx.writes = append(tx.writes, *w)
	if tx.afterClose {
		e.fail(tx, "C15", "write-after-close", "%s began after Close returned and still wrote to the connection", tx.name())
	}
	if !w.equal {
		class := "write-bytes-differ"
		if len(data) < len(tx.snapshot) && bytes.Equal(data, tx.snapshot[:len(data)]) {
			class = "write-truncated"
		}
		e.fail(tx, "C11", class, "transmission %d of %s carries %d bytes that differ from the %d-byte message as it was when Start was called (first difference at offset %d)",
			k, tx.name(), len(data), len(tx.snapshot), firstDiff(data, tx.snapshot))
	}
	if k+1 > tx.limit+1 {
		e.fail(tx, "C11", "too-many-writes", "%s was written %d times; the retransmission limit in force allows %d transmissions", tx.name(), k+1, tx.limit+1)
	}
	if tx.kind == txIndicate && k >= 1 {
		e.fail(tx, "C11", "indication-rewritten", "%s was written %d times", tx.name(), k+1)
	}
	now := w.when
	if tx.kcB {
		// the agent timed the transaction out before Start's own (first) write:
		// "transmission k" is not defined by the property for such a schedule
		e.stats["probe_c11_schedule_unchecked_timeout_before_first_write"]++
		tx.lb = append(tx.lb, now)
	} else if k == 0 {
		// the RTO was captured by Start before this first write: every SetRTO
		// value that may have been in force between invoke and now is admissible
		e.setRTOBounds(tx, w.seq)
		lb := tx.invokeAt
		if e.exactClock() && !w.lastNow.IsZero() && tx.kind != txIndicate {
			lb = w.lastNow
		}
		tx.lb = append(tx.lb, lb)
	} else {
		// transmission k-1 may be repeated only once the clock has passed k*r after it
		prev := tx.lb[k-1]
		bound := prev.Add(time.Duration(k) * tx.rtoMin)
		if !now.After(bound) {
			e.fail(tx, "C11", "retransmit-early", "transmission %d of %s at t=%v, but transmission %d was made at t>=%v and may be repeated only after %d*RTO(%v) = t>%v",
				k, tx.name(), now.Sub(baseTime), k-1, prev.Sub(baseTime), k, tx.rtoMin, bound.Sub(baseTime))
		}
		lb := bound
		if e.exactClock() && !w.lastNow.IsZero() && w.lastNow.After(lb) {
			lb = w.lastNow
		}
		tx.lb = append(tx.lb, lb)
		e.stats["probe_retransmissions"]++
		if len(data) > 2048 {
			e.stats["probe_retransmit_over_2048"]++
		}
		if w.trigger == nil {
			e.fail(tx, "C11", "retransmit-outside-timeout", "transmission %d of %s was not made from a timeout event of the agent", k, tx.name())
		}
	}
	// nothing more is written once the transaction has ended: the operation
	// that makes this write (Start, or the timeout event) must have begun
	// before the handler was invoked
	if len(tx.calls) > 0 {
		began := tx.invoke
		if w.trigger != nil {
			began = w.trigger.begin
		}
		if began > tx.calls[0].seq {
			e.fail(tx, "C11", "write-after-end", "transmission %d of %s is made by an operation that began after the transaction's handler had been invoked", k, tx.name())
		} else {
			e.stats["probe_write_overlapping_completion"]++
		}
	}
}

func head(b []byte, n int) []byte {
	if len(b) > n {
		return b[:n]
	}
	return b
}

func firstDiff(a, b []byte) int {
	for i := 0; i < len(a) && i < len(b); i++ {
		if a[i] != b[i] {
			return i
		}
	}
	if len(a) < len(b) {
		return len(a)
	}
	return len(b)
}

// finishDatagram is called when the reader comes back for the next Read: the
// processing of e.cur is over; check what the reference router predicts.
// lostResponse reports (now or when the overlapping callback returns) that
// datagram d did not reach the in-flight transaction tx.
func (e *clientEngine) lostResponse(tx *cTx, d *cDatagram, class, msg string) {
	if live := e.cbLive[d.id]; len(live) > 0 {
		e.suspects = append(e.suspects, cSuspect{tx: tx, d: d, cb: live[len(live)-1], class: class, msg: msg})
		return
	}
	e.finishing = d
	e.fail(tx, "C12", class, "%s", msg)
}

func (e *clientEngine) resolveSuspects(cb *cCallback) {
	keep := e.suspects[:0]
	for _, sp := range e.suspects {
		if sp.cb != cb {
			keep = append(keep, sp)
			continue
		}
		if len(sp.tx.calls) > 0 {
			e.stats["probe_response_lost_race_against_final_timeout"]++
			continue
		}
		if e.viol == nil {
			save := e.cur
			e.cur = sp.d
			e.fail(sp.tx, "C12", sp.class, "%s (the timeout event handled meanwhile did not end the transaction)", sp.msg)
			e.cur = save
		}
	}
	e.suspects = keep
}

func (e *clientEngine) finishDatagram() {
	d := e.cur
	e.cur = nil
	e.finishing = d
	if d == nil {
		return
	}
	closing := d.closeSeen || e.closeBegan
	if !d.decodes {
		return // handlers invoked with it are flagged at invocation time
	}
	if tx := d.inflight; tx != nil {
		if d.delivered == 0 && len(tx.calls) == 0 && !closing && !d.reported {
			d.reported = true
			e.lostResponse(tx, d, "response-not-delivered", fmt.Sprintf("datagram (%s, id=%x) was read while %s was in flight, processing finished, and its handler was not invoked (fallback invocations with it: %d)", d.kind, d.id[8:], tx.name(), d.fallback))
		}
		return
	}
	if d.possible != nil {
		return
	}
	if e.hasFallback && d.fallback == 0 && d.delivered == 0 && !closing {
		e.fail(nil, "C12", "fallback-missed", "datagram (%s, id=%x) matches no transaction and a fallback handler is set, but it was not invoked", d.kind, d.id[8:])
	}
}

// ---------------------------------------------------------------------------
// handler ledger (C10, C12, C15)

func (e *clientEngine) record(ev stun.Event) cCall {
	r := e.r
	c := cCall{seq: r.Seq(), err: ev.Error, evID: ev.TransactionID, when: e.vnow()}
	if tk := r.Sim.Cur(); tk != nil {
		c.task = tk.ID
	} else {
		c.task = -1
	}
	if ev.Message != nil {
		c.hasMsg = true
		c.msgID = ev.Message.TransactionID
		c.raw = append([]byte(nil), ev.Message.Raw...)
	}
	return c
}

func (e *clientEngine) checkMessage(c *cCall, ev stun.Event, who string, tx *cTx) {
	if !c.hasMsg {
		return
	}
	d := e.cur
	if d == nil || c.task != e.readerTask {
		e.fail(nil, "C12", "message-without-datagram", "%s received a Message while the reader was not processing any datagram", who)
		return
	}
	c.fromCur = d
	if !d.decodes {
		e.fail(nil, "C12", "undecodable-delivered", "%s received a Message for an undecodable datagram (%s)", who, d.kind)
		return
	}
	if !bytes.Equal(c.raw, d.data) {
		e.fail(nil, "C12", "message-bytes-differ", "%s: Message.Raw (%d bytes) is not the received datagram (%d bytes, %s); first difference at %d", who, len(c.raw), len(d.data), d.kind, firstDiff(c.raw, d.data))
		return
	}
	if c.evID != d.id || c.msgID != d.id {
		e.fail(nil, "C12", "message-id-differs", "%s: event id %x / message id %x differ from the datagram's id %x", who, c.evID[8:], c.msgID[8:], d.id[8:])
		return
	}
	// independent decode of the datagram must agree with what the handler sees
	var ref stun.Message
	ref.Raw = append([]byte(nil), d.data...)
	if err := ref.Decode(); err != nil {
		return
	}
	if ref.Type != ev.Message.Type || ref.Length != ev.Message.Length || len(ref.Attributes) != len(ev.Message.Attributes) {
		e.fail(nil, "C12", "message-decode-differs", "%s: Message (type %v, length %d, %d attributes) is not the decode of the datagram (type %v, length %d, %d attributes)",
			who, ev.Message.Type, ev.Message.Length, len(ev.Message.Attributes), ref.Type, ref.Length, len(ref.Attributes))
		return
	}
	for i := range ref.Attributes {
		a, b := ref.Attributes[i], ev.Message.Attributes[i]
		if a.Type != b.Type || a.Length != b.Length || !bytes.Equal(a.Value, b.Value) {
			e.fail(nil, "C12", "message-decode-differs", "%s: attribute %d differs from the decode of the datagram", who, i)
			return
		}
	}
}

func (e *clientEngine) txHandler(tx *cTx) stun.Handler {
	return func(ev stun.Event) {
		verifrt.Yield(hsHandler)
		c := e.record(ev)
		e.r.Logf("handler %s err=%v msg=%v", tx.name(), ev.Error, ev.Message != nil)
		tx.calls = append(tx.calls, c)
		cp := &tx.calls[len(tx.calls)-1]
		if c.evID != tx.id {
			subj := tx
			if o := e.byID[c.evID]; o != nil {
				subj = o
			}
			e.fail(subj, "C12", "wrong-transaction", "handler of %s invoked with an event for id %x", tx.name(), c.evID[8:])
		}
		// C10 safety
		if len(tx.calls) > 1 {
			e.fail(tx, "C10", "handler-twice", "handler of %s invoked %d times (events: %v then %v)", tx.name(), len(tx.calls), evDesc(tx.calls[0]), evDesc(c))
		}
		if c.hasMsg && !tx.firstWriteOK {
			tx.preWriteMessage = true
			e.stats["probe_message_for_request_not_yet_written"]++
		}
		if tx.returned && tx.ret != nil && !tx.preWriteMessage {
			e.fail(tx, "C10", "handler-after-start-error", "handler of %s invoked although the call returned error %v", tx.name(), tx.ret)
		}
		if e.closeOK != nil && e.closeOK.done && !e.lateCollectorTask() {
			e.fail(tx, "C15", "handler-after-close", "handler of %s invoked after Close returned", tx.name())
		}
		e.checkMessage(cp, ev, "handler of "+tx.name(), tx)
		if cp.fromCur != nil {
			cp.fromCur.delivered++
		}
		e.checkOutcome(tx, cp)
		if tx.kind == txDo {
			tx.doCbDone = true
		}
		// re-entrancy: a handler that learns the client is closing may call Close
		// itself; the first Close is in progress, so it must get ErrClientClosed
		// (only on a closed-error event: then the closed flag is certainly set; a
		// Close that becomes the first one inside a library goroutine waits for
		// itself by design)
		if e.reentPct > 0 && e.closeBegan && (errors.Is(c.err, stun.ErrAgentClosed) || errors.Is(c.err, stun.ErrClientClosed)) && e.viol == nil && e.reentered < 6 && e.r.Pct(30, "handler-calls-close") {
			e.reentered++
			e.stats["probe_handler_called_close"]++
			if tk := e.r.Sim.Cur(); tk != nil {
				e.doClose(tk)
			}
		}
		// re-entrancy: a handler may start a new transaction (e.g. a retry)
		// (only once the transaction's own Start call is past its write: a
		// handler that runs while Start may still roll back is the K-c / K-d
		// territory and is judged when Start returns)
		if e.reentPct > 0 && e.reentered < 6 && e.viol == nil && (tx.firstWriteOK || (tx.returned && tx.ret == nil)) && e.r.Pct(e.reentPct, "handler-reenters") {
			e.reentered++
			e.stats["probe_handler_reentered_client"]++
			if tk := e.r.Sim.Cur(); tk != nil {
				if tk.ID != e.readerTask && e.r.Pct(50, "nested-do") {
					// Do from inside a handler that does not run in the reader
					// goroutine (timeout / close paths): the answer is protected so
					// that the nested call can complete
					e.stats["probe_handler_nested_do"]++
					e.nestedDo++
					e.startTx2(tk, txDo, true)
					e.nestedDo--
				} else {
					e.startTx(tk, txStart, nil)
				}
			}
		}
		verifrt.Yield(hsHandler)
	}
}

func evDesc(c cCall) string {
	if c.hasMsg {
		return fmt.Sprintf("message(id=%x)", c.msgID[8:])
	}
	return fmt.Sprintf("error(%v)", c.err)
}

// checkOutcome: the event must be one of the four outcomes C10 names.
func (e *clientEngine) checkOutcome(tx *cTx, c *cCall) {
	switch {
	case c.hasMsg && c.err == nil:
		e.stats["outcome_response"]++
	case c.hasMsg:
		e.fail(tx, "C10", "outcome-message-with-error", "handler of %s received a message together with error %v", tx.name(), c.err)
	case errors.Is(c.err, stun.ErrTransactionTimeOut):
		e.stats["outcome_timeout"]++
		if tx.kcB {
			return
		}
		// timeout only after the (n+1)-th deadline: all n+1 transmissions were made ...
		if len(tx.writes) < tx.limit+1 {
			e.fail(tx, "C11", "timeout-before-last-retransmission", "%s timed out after %d transmissions; the limit in force gives %d", tx.name(), len(tx.writes), tx.limit+1)
			return
		}
		// ... and the clock has passed (n+1)*r after the last one
		n := len(tx.lb) - 1
		if n >= 0 {
			bound := tx.lb[n].Add(time.Duration(n+1) * tx.rtoMin)
			if !c.when.After(bound) {
				e.fail(tx, "C11", "timeout-early", "%s timed out at t=%v; its last transmission (%d) was made at t>=%v so the timeout is due only after t=%v",
					tx.name(), c.when.Sub(baseTime), n, tx.lb[n].Sub(baseTime), bound.Sub(baseTime))
			}
		}
	case errors.Is(c.err, e.writeErr):
		e.stats["outcome_write_error"]++
		if !tx.writeFailed {
			e.fail(tx, "C10", "outcome-foreign-write-error", "handler of %s received a write error although none of its writes failed", tx.name())
		}
	case errors.Is(c.err, errInjAgentStart):
		e.stats["outcome_reregistration_error"]++
		if !tx.agentStartFailed {
			e.fail(tx, "C10", "outcome-foreign-reregistration-error", "handler of %s received a re-registration error although none of its retransmissions failed to register", tx.name())
		}
	case errors.Is(c.err, stun.ErrClientClosed) || errors.Is(c.err, stun.ErrAgentClosed):
		e.stats["outcome_closed"]++
		if !e.closeBegan {
			e.fail(tx, "C10", "outcome-closed-without-close", "handler of %s received %v although Close was never called", tx.name(), c.err)
		}
	default:
		var se stun.StopErr
		if errors.As(c.err, &se) && errors.Is(se.Cause, e.writeErr) && tx.writeFailed {
			e.stats["outcome_write_error"]++
			return
		}
		e.fail(tx, "C10", "outcome-unexpected", "handler of %s received %v, which is none of: response, timeout, write error, closed error", tx.name(), c.err)
	}
}

// lateCollectorTask: the caller runs in the task of a user-driven collector
// whose Close does not wait for a collection in progress; what that collection
// does after Client.Close returned is outside C15 (its preconditions only ask
// that the collector's Close succeeds).
func (e *clientEngine) lateCollectorTask() bool {
	if !e.collNoWait || e.coll == nil || e.coll.task == nil {
		return false
	}
	tk := e.r.Sim.Cur()
	return tk != nil && (tk.ID == e.coll.task.ID || (e.coll.task2 != nil && tk.ID == e.coll.task2.ID))
}

func (e *clientEngine) fallbackReenter() {
	if e.reentPct > 0 && e.reentered < 6 && e.viol == nil && e.r.Pct(e.reentPct, "fallback-reenters") {
		// e.g. answering a Data indication: the fallback handler uses the client
		e.reentered++
		e.stats["probe_fallback_reentered_client"]++
		if tk := e.r.Sim.Cur(); tk != nil {
			if e.r.Pct(50, "fallback-indicate") {
				e.startTx(tk, txIndicate, nil)
			} else {
				e.startTx(tk, txStart, nil)
			}
		}
	}
}

func (e *clientEngine) fallback(ev stun.Event) {
	defer e.fallbackReenter()
	verifrt.Yield(hsHandler)
	c := e.record(ev)
	e.r.Logf("fallback id=%x err=%v msg=%v", ev.TransactionID[8:], ev.Error, ev.Message != nil)
	e.fallbackCalls = append(e.fallbackCalls, c)
	cp := &e.fallbackCalls[len(e.fallbackCalls)-1]
	if e.closeOK != nil && e.closeOK.done && !e.lateCollectorTask() {
		e.fail(nil, "C15", "handler-after-close", "fallback handler invoked after Close returned")
	}
	if !c.hasMsg {
		return // error-only events are not messages: not constrained by C12
	}
	e.checkMessage(cp, ev, "fallback handler", nil)
	if cp.fromCur == nil {
		return
	}
	d := cp.fromCur
	d.fallback++
	if d.fallback > 1 {
		e.fail(nil, "C12", "fallback-twice", "fallback handler invoked %d times for one datagram", d.fallback)
	}
	if d.delivered > 0 {
		e.fail(nil, "C12", "delivered-and-fallback", "datagram id=%x went to a transaction handler and to the fallback handler", d.id[8:])
	}
	// in flight both when the datagram was read and now: it must not go to the fallback
	if tx := d.inflight; tx != nil && len(tx.calls) == 0 && e.byID[d.id] == tx {
		if !d.reported {
			d.reported = true
			e.lostResponse(tx, d, "inflight-to-fallback", fmt.Sprintf("datagram (%s, id=%x) went to the fallback handler while %s is in flight", d.kind, d.id[8:], tx.name()))
		}
	}
}

// ---------------------------------------------------------------------------
// caller operations

func (e *clientEngine) admissibleRTO(invoke, ret int) []time.Duration {
	var out []time.Duration
	for _, s := range e.setrtos {
		if s.invoke > ret {
			continue
		}
		over := false
		if s.done {
			for _, o := range e.setrtos {
				if o != s && o.done && o.invoke > s.ret && o.ret < invoke {
					over = true
					break
				}
			}
		}
		if !over {
			out = append(out, s.v)
		}
	}
	return out
}

func (e *clientEngine) setRTOBounds(tx *cTx, upto int) {
	rs := e.admissibleRTO(tx.invoke, upto)
	tx.rtoSet = rs
	if len(rs) > 0 {
		tx.rtoMin = rs[0]
		for _, v := range rs {
			if v < tx.rtoMin {
				tx.rtoMin = v
			}
		}
	}
}

func (e *clientEngine) buildMsg(id [stun.TransactionIDSize]byte, size int, class stun.MessageClass) *stun.Message {
	m := new(stun.Message)
	setters := []stun.Setter{stun.NewTransactionIDSetter(id), stun.NewType(stun.MethodBinding, class)}
	if err := m.Build(setters...); err != nil {
		panic(&harnessPanic{"build: " + err.Error()})
	}
	// pad with unknown-comprehension-optional attributes up to size
	for len(m.Raw) < size {
		need := size - len(m.Raw) - 4
		if need < 0 {
			break
		}
		if need > 700 {
			need = 700
		}
		v := make([]byte, need)
		for i := range v {
			v[i] = byte(len(m.Raw) + i*7)
		}
		m.Add(stun.AttrType(0x8100), v)
	}
	return m
}

func (e *clientEngine) drawSize() int {
	r := e.r
	if !r.Pct(e.bigPct, "big") {
		return 20 + 4*r.Choose(40, "size")
	}
	switch r.Choose(6, "bigsize") {
	case 0:
		return 1496 + 4*r.Choose(3, "s")
	case 1:
		return 2044 + 4*r.Choose(3, "s")
	case 2:
		return 2052 + 4*r.Choose(300, "s")
	case 3:
		return 4096 + 4*r.Choose(1000, "s")
	case 4:
		return 65532 - 4*r.Choose(3, "s")
	default:
		return 1000 + 4*r.Choose(400, "s")
	}
}

func (e *clientEngine) startTx(tk *verifrt.Task, kind cTxKind, reuse *cTx) {
	e.startTx3(tk, kind, reuse, false)
}

func (e *clientEngine) startTx2(tk *verifrt.Task, kind cTxKind, protected bool) {
	e.startTx3(tk, kind, nil, protected)
}

func (e *clientEngine) startTx3(tk *verifrt.Task, kind cTxKind, reuse *cTx, protected bool) {
	r := e.r
	id := e.freshID()
	if reuse != nil {
		id = reuse.id
	}
	class := stun.ClassRequest
	if kind == txIndicate {
		class = stun.ClassIndication
	}
	size := e.drawSize()
	m := e.buildMsg(id, size, class)
	if r.Pct(4, "trailing-bytes") {
		// Raw longer than header + Length: still "the message as it was when Start was called"
		m.Raw = append(m.Raw, 0xde, 0xad, 0xbe, 0xef, byte(len(m.Raw)))
		e.stats["probe_request_with_trailing_bytes"]++
	}
	tx := &cTx{idx: len(e.txs), kind: kind, id: id, task: tk.ID, snapshot: append([]byte(nil), m.Raw...), size: len(m.Raw), reuseOf: -1}
	if reuse != nil {
		tx.reuseOf = reuse.idx
		tx.kc = reuse.kc
		e.stats["probe_id_reused_after_end"]++
	}
	tx.protected = protected
	tx.limit = 7
	if e.noRetransmit {
		tx.limit = 0
	}
	if kind == txIndicate {
		tx.limit = 0
	}
	tx.invoke = r.Seq()
	tx.invokeAt = e.vnow()
	if (e.closeOK != nil && e.closeOK.done) || e.anyCloseReturned {
		// after Close returned (to anybody, also with ErrClientClosed) the caller knows the client is closed
		tx.afterClose = true
	}
	e.txs = append(e.txs, tx)
	e.byID[id] = tx
	e.opsDesc = append(e.opsDesc, fmt.Sprintf("%s:%s(size=%d)", tk.Name, cTxKindNames[kind], tx.size))
	r.Logf("invoke %s by %s", tx.name(), tk.Name)
	verifrt.Yield(hsCaller)
	var err error
	switch kind {
	case txStart:
		err = e.client.Start(m, e.txHandler(tx))
	case txDo:
		h := e.txHandler(tx)
		err = e.client.Do(m, func(ev stun.Event) { h(ev) })
	case txIndicate:
		switch r.Choose(3, "indicate-via") {
		case 1:
			err = e.client.Do(m, nil) // documented shorthand for Indicate
		case 2:
			err = e.client.Start(m, nil) // what Indicate is a shorthand for
		default:
			err = e.client.Indicate(m)
		}
	}
	tx.ret = err
	tx.returned = true
	tx.retSeq = r.Seq()
	if len(tx.rtoSet) == 0 {
		e.setRTOBounds(tx, tx.retSeq)
	}
	r.Logf("return %s -> %v", tx.name(), err)
	// C10: if the call returns an error the handler is never invoked
	if err != nil && len(tx.calls) > 0 && !tx.preWriteMessage {
		e.fail(tx, "C10", "start-error-after-handler", "%s returned error %v but its handler had already been invoked with %v", tx.name(), err, evDesc(tx.calls[0]))
	}
	if kind == txDo && err == nil && len(tx.calls) != 1 {
		e.fail(tx, "C10", "do-returned-without-callback", "%s returned nil but its callback was invoked %d times", tx.name(), len(tx.calls))
	}
	if kind == txDo && err == nil && !tx.doCbDone {
		e.fail(tx, "C10", "do-returned-before-callback-finished", "%s returned while its callback was still running", tx.name())
	}
	if tx.afterClose {
		if !errors.Is(err, stun.ErrClientClosed) {
			e.fail(tx, "C15", "call-after-close", "%s began after Close returned and returned %v instead of ErrClientClosed", tx.name(), err)
		}
	}
	if err != nil {
		// C10 says nothing about which errors Start may return; record them as probes
		switch {
		case errors.Is(err, stun.ErrClientClosed), errors.Is(err, stun.ErrAgentClosed):
			e.stats["probe_start_returned_closed_error"]++
		case errors.Is(err, e.writeErr), errors.Is(err, errConnClosed):
			e.stats["probe_start_returned_write_error"]++
		default:
			var se stun.StopErr
			if errors.As(err, &se) {
				e.stats["probe_start_returned_stoperr"]++
			} else {
				e.stats["probe_start_returned_other_error"]++
			}
		}
	}
	// caller-side buffer reuse: the message belongs to the caller again
	if r.Pct(40, "scribble") {
		e.stats["fault_caller_scribble"]++
		verifrt.WS(m.Raw, hsCaller) // the caller writes its own buffer: a library that still reads it races with this
		for i := range m.Raw {
			m.Raw[i] ^= 0xA5
		}
		if r.Pct(50, "rebuild") {
			m.Build(stun.NewTransactionIDSetter(e.freshID()), stun.BindingRequest) //nolint
		}
	}
}

func (e *clientEngine) doSetRTO(tk *verifrt.Task) {
	r := e.r
	vals := []time.Duration{1, time.Millisecond, 50 * time.Millisecond, 300 * time.Millisecond, 2 * time.Second}
	v := vals[r.Choose(len(vals), "rto")]
	s := &cSetRTO{v: v, invoke: r.Seq()}
	e.setrtos = append(e.setrtos, s)
	e.opsDesc = append(e.opsDesc, fmt.Sprintf("%s:SetRTO(%v)", tk.Name, v))
	r.Logf("invoke SetRTO(%v) by %s", v, tk.Name)
	verifrt.Yield(hsCaller)
	e.client.SetRTO(v)
	s.ret = r.Seq()
	s.done = true
}

func (e *clientEngine) doClose(tk *verifrt.Task) { e.doClose2(tk, false) }

// aimClose makes some Close calls of the callers "targeted": with a collector
// whose ticks the application drives, the caller holds its Close back until the
// client is inside a window that a uniformly placed Close rarely meets - a
// retransmission being prepared (the clock was just read inside the handling of
// a timeout), or a write just begun. It only decides when Close is called; the
// caller gives up waiting as soon as the chaos phase ends or Close was called.
func (e *clientEngine) aimClose(tk *verifrt.Task) {
	r := e.r
	if !e.manual || e.coll == nil || !r.Pct(35, "close-aimed") {
		return
	}
	c0, w0 := e.aimClock, e.aimWrite
	atWrite := r.Pct(30, "close-aimed-at-write")
	e.stats["probe_close_aimed"]++
	hit := false
	r.Sim.BlockUntil("aim-close", hsCaller, func() bool {
		if atWrite && e.aimWrite > w0 || !atWrite && e.aimClock > c0 {
			hit = true
			return true
		}
		return e.phase != phChaos || e.closeBegan
	})
	if hit {
		e.stats["probe_close_aimed_hit"]++
	}
}

// doClose2 closes the client through Close, or through the finalizer path
// (which has no return value: only the resulting state is judged).
func (e *clientEngine) doClose2(tk *verifrt.Task, viaFinalizer bool) {
	r := e.r
	c := &cClose{task: tk.ID, invoke: r.Seq()}
	e.closes = append(e.closes, c)
	e.closeBegan = true
	e.opsDesc = append(e.opsDesc, fmt.Sprintf("%s:Close", tk.Name))
	r.Logf("invoke Close by %s", tk.Name)
	inflight := 0
	for _, t := range e.txs {
		if t.kind != txIndicate && !t.ended() {
			inflight++
		}
	}
	if inflight > 0 {
		e.stats["probe_close_with_inflight"]++
	}
	verifrt.Yield(hsCaller)
	var err error
	if viaFinalizer {
		e.stats["probe_closed_via_finalizer"]++
		wasClosed := e.closeOK != nil
		stun.VerifFinalize(e.client)
		if wasClosed {
			err = stun.ErrClientClosed
		}
	} else {
		err = e.client.Close()
	}
	c.err = err
	c.ret = r.Seq()
	e.anyCloseReturned = true
	r.Logf("return Close by %s -> %v (finalizer=%v)", tk.Name, err, viaFinalizer)
	if errors.Is(err, stun.ErrClientClosed) {
		c.done = true
		return
	}
	// the successful Close
	if e.closeOK != nil {
		c.done = true
		e.fail(nil, "C15", "close-succeeded-twice", "two Close calls succeeded (returned %v and %v)", e.closeOK.err, err)
		return
	}
	e.closeOK = c
	wantAgent, wantConn := error(nil), error(nil)
	if e.closeErrAgent {
		wantAgent = errInjAgentClose
	}
	if e.closeErrConn && !e.noConnClose {
		wantConn = e.connCloseErr
	}
	if viaFinalizer {
		// no return value to judge
	} else if wantAgent == nil && wantConn == nil {
		if err != nil {
			e.fail(nil, "C15", "close-unexpected-error", "Close returned %v although neither the agent nor the connection failed to close", err)
		}
	} else {
		var ce stun.CloseErr
		if !errors.As(err, &ce) {
			e.fail(nil, "C15", "close-error-lost", "Close returned %v; expected a CloseErr carrying agent error %v and connection error %v", err, wantAgent, wantConn)
		} else if ce.AgentErr != wantAgent || ce.ConnectionErr != wantConn {
			e.fail(nil, "C15", "close-error-wrong", "CloseErr carries agent=%v connection=%v; injected agent=%v connection=%v", ce.AgentErr, ce.ConnectionErr, wantAgent, wantConn)
		}
	}
	// when it returns: goroutines have exited, connection closed exactly once (or never)
	for _, t := range r.Sim.Tasks {
		if strings.HasPrefix(t.Name, "go@") && t.State != verifrt.Done {
			e.fail(nil, "C15", "goroutine-alive-after-close", "Close returned but goroutine %s is still %v at %s", t.Name, t.State, verifrt.SiteName(t.Site))
		}
	}
	wantCloses := 1
	if e.noConnClose {
		wantCloses = 0
	}
	if e.conn.closeCalls != wantCloses {
		e.fail(nil, "C15", "conn-close-count", "Close returned and Connection.Close was called %d times; expected %d", e.conn.closeCalls, wantCloses)
	}
	c.done = true
}

func (e *clientEngine) callerScript(i int) func() {
	return func() {
		r := e.r
		tk := r.Sim.Cur()
		for j := 0; j < e.opsPer; j++ {
			if e.closeOK != nil && e.closeOK.done && r.Pct(70, "stop-after-close") {
				return
			}
			w := []int{6, 5, 2, 2, 0, 0} // id reuse (case 5) is not generated: see DESIGN.md 11
			if e.burst {
				w = []int{1, 0, 0, 0, 0, 0}
			}
			w[4] = e.closePct
			switch r.Pick(w, "caller-op") {
			case 0:
				e.startTx(tk, txStart, nil)
			case 1:
				e.startTx(tk, txDo, nil)
			case 2:
				e.startTx(tk, txIndicate, nil)
			case 3:
				e.doSetRTO(tk)
			case 4:
				e.aimClose(tk)
				e.doClose(tk)
			case 5:
				// reuse the id of a transaction that has ended
				var old *cTx
				for _, t := range e.txs {
					if t.kind != txIndicate && t.returned && t.ended() && e.byID[t.id] == t && (t.ret != nil || len(t.calls) > 0) {
						old = t
					}
				}
				e.startTx(tk, txStart, old)
			}
		}
	}
}

// ---------------------------------------------------------------------------
// engine interface

func (e *clientEngine) Setup(r *Run) {
	e.r = r
	e.stats = map[string]int{}
	e.byID = map[[stun.TransactionIDSize]byte]*cTx{}
	e.cbActive = map[[stun.TransactionIDSize]byte]int{}
	e.cbLive = map[[stun.TransactionIDSize]byte][]*cCallback{}
	e.cbStack = map[int][]*cCallback{}
	e.lastNow = map[int]time.Time{}
	e.now = baseTime
	e.readerTask = -1
	thorough := r.Tier == "thorough"
	prof := r.Profile

	switch r.Choose(5, "clockmode") {
	case 1, 2:
		e.manual = true // simulated clock and collector
		e.collNoWait = r.Pct(25, "collector-nowait")
		e.collTwo = r.Pct(20, "collector-two-tasks")
	case 3:
		e.skew = time.Hour // custom clock (one hour behind or ahead of the ticker's own time) over the real ticker collector
		if r.Pct(50, "skew-ahead") {
			e.skew = -time.Hour
		}
	}
	e.noConnClose = r.Pct(25, "noconnclose")
	e.noRetransmit = r.Pct(20, "noretransmit")
	e.hasFallback = !r.Pct(30, "nofallback")
	rtos := []time.Duration{0, 1, time.Millisecond, 50 * time.Millisecond, 2 * time.Second}
	e.rto0 = rtos[r.Choose(len(rtos), "rto0")]
	rates := []time.Duration{0, time.Millisecond, 50 * time.Millisecond, time.Second}
	e.rate = rates[r.Choose(len(rates), "rate")]
	maxCallers := 4
	if thorough {
		maxCallers = 12
	}
	e.nCallers = 1 + r.Choose(maxCallers, "ncallers")
	e.opsPer = 1 + r.Choose(5, "opsper")
	pcts := []int{0, 0, 10, 30}
	e.lossPct = pcts[r.Choose(4, "loss")]
	e.dupPct = pcts[r.Choose(4, "dup")]
	e.corruptPct = pcts[r.Choose(4, "corrupt")]
	e.spontPct = pcts[r.Choose(4, "spont")]
	e.writeFailPct = []int{0, 0, 5, 20}[r.Choose(4, "wfail")]
	// what a failing Write returns: a plain error, a timeout-class net.Error, a closed pipe
	e.writeErr = []error{errInjWrite, &net.OpError{Op: "write", Net: "udp", Err: os.ErrDeadlineExceeded}, io.ErrClosedPipe}[r.Choose(3, "werr-kind")]
	e.readFailPct = []int{0, 0, 5, 20}[r.Choose(4, "rfail")]
	e.closeErrConn = r.Pct(15, "closeerr-conn")
	// what a connection's Close may return: a custom error, or the errors the
	// standard library returns for a connection that is already closed
	e.connCloseErr = []error{errInjConnClose, net.ErrClosed, &net.OpError{Op: "close", Net: "udp", Err: net.ErrClosed}}[r.Choose(3, "closeerr-kind")]
	e.closeErrAgent = r.Pct(15, "closeerr-agent")
	e.bigPct = []int{0, 5, 30}[r.Choose(3, "bigpct")]
	e.closePct = []int{0, 1, 3}[r.Choose(3, "closepct")]
	e.avoidKnown = false // no open known finding needs its precondition avoided
	e.spontLeft = 12
	e.writeBlocksLeft = r.Choose(3, "write-blocks")
	e.chaosCap = 3000
	switch prof {
	case "C11":
		e.bigPct = []int{10, 30, 60}[r.Choose(3, "bigpct11")]
	case "C10":
		if r.Pct(3, "burst") {
			// a burst of unanswered requests that all expire before one collection
			e.burst = true
			e.nCallers = 2 + r.Choose(3, "ncallers-b")
			e.opsPer = 40 + r.Choose(30, "opsper-b")
			e.lossPct, e.writeFailPct, e.readFailPct, e.closePct, e.bigPct = 0, 0, 0, 0, 0
			e.chaosCap = 60000
		}
	case "C15":
		e.closePct = 1 + r.Choose(4, "closepct15")
	case "C12":
		if r.Pct(30, "many") {
			// many transactions in flight at once
			e.nCallers = 4 + r.Choose(5, "ncallers12")
			e.opsPer = 4 + r.Choose(6, "opsper12")
			if thorough {
				e.nCallers = 8 + r.Choose(9, "ncallers12t")
				e.opsPer = 8 + r.Choose(24, "opsper12t")
			}
			e.chaosCap = 30000
		} else if r.Pct(15, "marathon") {
			// long sequential reuse of the pooled transaction / wait-handler objects
			e.marathon = true
			e.nCallers = 1 + r.Choose(2, "ncallers-m")
			e.opsPer = 100 + r.Choose(200, "opsper-m")
			if thorough {
				e.opsPer = 500 + r.Choose(1500, "opsper-mt")
			}
			e.lossPct, e.writeFailPct, e.readFailPct, e.closePct = 0, 0, 0, 0
			e.bigPct = 0
			e.chaosCap = 150000
		}
	}
	e.reentPct = []int{0, 0, 0, 30}[r.Choose(4, "reenter")]
	r.Sim.YieldInLock = r.Pct(25, "inlock")
	r.Sim.RaceCheck = true
	r.Sim.PoolMode = r.Choose(2, "poolmode")
	r.Sim.MapMode = r.Choose(2, "mapmode")
	r.StayWeight = []int{1, 3, 10, 30}[r.Choose(4, "stay")]
	r.EnvWeight = 1
	if r.Pct(20, "pct-policy") {
		r.Policy = 1
	}
	// per-run subset of honoured yield sites
	dens := []int{100, 100, 50, 20}[r.Choose(4, "yield-density")]
	if e.marathon || e.burst {
		dens = []int{10, 4}[r.Choose(2, "yield-density-m")]
	}
	if dens < 100 {
		off := make([]bool, len(verifrt.SiteNames))
		x := uint64(r.Choose(1<<30, "site-mask-seed"))*2654435761 + 12345
		for i := range off {
			x ^= x << 13
			x ^= x >> 7
			x ^= x << 17
			off[i] = int(x%100) >= dens
		}
		r.Sim.SiteOff = off
	}
	e.cfgDesc = map[string]any{"manual_clock": e.manual, "clock_skew": e.skew.String(), "no_conn_close": e.noConnClose, "no_retransmit": e.noRetransmit, "fallback": e.hasFallback,
		"rto": e.rto0.String(), "rate": e.rate.String(), "callers": e.nCallers, "ops_per_caller": e.opsPer, "loss": e.lossPct, "dup": e.dupPct, "corrupt": e.corruptPct,
		"write_fail": e.writeFailPct, "yield_density": dens, "in_lock_yields": r.Sim.YieldInLock, "pool_mode": r.Sim.PoolMode, "marathon": e.marathon, "burst": e.burst, "collector_close_waits": !e.collNoWait, "sched_policy": r.Policy, "handler_reenters_pct": e.reentPct}

	e.conn = &simConn{e: e}
	r.Sim.Spawn("setup", func() {
		e.agent = &wrapAgent{e: e, inner: stun.NewAgent(nil)}
		opts := []stun.ClientOption{stun.WithAgent(e.agent)}
		if e.hasFallback {
			opts = append(opts, stun.WithHandler(e.fallback))
		}
		if e.rto0 != 0 {
			opts = append(opts, stun.WithRTO(e.rto0))
		}
		if e.rate != 0 {
			opts = append(opts, stun.WithTimeoutRate(e.rate))
		}
		if e.noRetransmit {
			opts = append(opts, stun.WithNoRetransmit)
		}
		if e.noConnClose {
			opts = append(opts, stun.WithNoConnClose())
		}
		if e.manual {
			e.coll = &simCollector{e: e, noWait: e.collNoWait, two: e.collTwo}
			opts = append(opts, stun.WithClock(simClock{e}), stun.WithCollector(e.coll))
		} else if e.skew != 0 {
			opts = append(opts, stun.WithClock(simClock{e}))
		}
		c, err := stun.NewClient(e.conn, opts...)
		if err != nil {
			panic(&harnessPanic{"NewClient: " + err.Error()})
		}
		runtime.SetFinalizer(c, nil)
		e.client = c
	})
	// the RTO in force before any SetRTO. Without WithRTO the library's default
	// applies; the oracle does not mirror that constant: it uses 0 for the
	// lower bounds (sound, only weaker) and a generous assumed upper bound for
	// pushing time in the heal phase.
	init := e.rto0
	e.setrtos = append(e.setrtos, &cSetRTO{v: init, invoke: 0, ret: 0, done: true})
}

func (e *clientEngine) effRate() time.Duration {
	if e.rate == 0 {
		return 5 * time.Millisecond
	}
	return e.rate
}

// inStartWindow: the Start/Do call of tx has been invoked and has neither
// returned nor completed its first write successfully.
func (e *clientEngine) inStartWindow(tx *cTx) bool {
	return tx.kind != txIndicate && !tx.returned && !tx.firstWriteOK
}

// callersBusy: some caller task has not finished its script (burst profile:
// the clock stands still until every request of the burst is out).
func (e *clientEngine) callersBusy() bool {
	for _, tk := range e.callers {
		if tk.State != verifrt.Done {
			return true
		}
	}
	return false
}

func (e *clientEngine) progress() int {
	n := len(e.fallbackCalls)
	for _, t := range e.txs {
		n += len(t.calls) + len(t.writes)
		if t.returned {
			n++
		}
	}
	return n
}

func (e *clientEngine) incomplete() []*cTx {
	var out []*cTx
	for _, t := range e.txs {
		if t.kind != txIndicate && !t.ended() && !(t.returned && t.ret != nil) {
			out = append(out, t)
		}
	}
	return out
}

func (e *clientEngine) advance(d time.Duration, tick bool) {
	if e.manual {
		e.now = e.now.Add(d)
		e.r.SimTime += d
		if tick && e.coll != nil && !e.coll.closed {
			e.coll.ticks++
		}
	} else {
		e.r.Advance(d)
	}
	e.advanced += d
}

// earliestDeadline returns the model's earliest lower-bound deadline among
// transactions in flight.
func (e *clientEngine) earliestDeadline() (time.Time, bool) {
	var best time.Time
	ok := false
	for _, t := range e.incomplete() {
		if len(t.lb) == 0 || !t.returned {
			continue
		}
		k := len(t.lb) - 1
		d := t.lb[k].Add(time.Duration(k+1) * t.rtoMin)
		if !ok || d.Before(best) {
			best, ok = d, true
		}
	}
	return best, ok
}

func (e *clientEngine) Env() []EnvEvent {
	r := e.r
	var ev []EnvEvent
	if e.phase == phSetup {
		if e.client == nil || r.Sim.Tasks[0].State != verifrt.Done {
			return nil
		}
		e.spawnCallers()
	}
	chaos := e.phase == phChaos
	// network: deliver / drop / duplicate / corrupt pending datagrams
	if len(e.pending) > 0 && e.phase < phEnd {
		n := len(e.pending)
		ev = append(ev, EnvEvent{Name: "net-deliver", Weight: 6, Do: func() {
			i := r.Choose(n, "which")
			d := e.pending[i]
			e.pending = append(e.pending[:i:i], e.pending[i+1:]...)
			if chaos && r.Pct(e.dupPct, "dup") {
				e.stats["fault_duplicate"]++
				e.pending = append(e.pending, &cDatagram{data: d.data, id: d.id, decodes: d.decodes, kind: d.kind + "+dup"})
			}
			if chaos && !d.protected && r.Pct(e.corruptPct, "corrupt") {
				d = e.corrupt(d)
			}
			if i != 0 {
				e.stats["fault_reorder"]++
			}
			e.inbox = append(e.inbox, d)
		}})
		if chaos && e.lossPct > 0 || e.phase == phHeal {
			ev = append(ev, EnvEvent{Name: "net-drop", Weight: 1 + e.lossPct/10, Do: func() {
				i := r.Choose(n, "which")
				if e.pending[i].protected {
					return
				}
				e.pending = append(e.pending[:i:i], e.pending[i+1:]...)
				e.stats["fault_loss"]++
			}})
		}
	}
	if chaos {
		if e.spontPct > 0 && e.spontLeft > 0 && e.client != nil {
			ev = append(ev, EnvEvent{Name: "net-spontaneous", Weight: 1 + e.spontPct/10, Do: func() { e.spontLeft--; e.spontaneous() }})
		}
		if e.writeFailPct > 0 && e.armedWriteFail == 0 {
			ev = append(ev, EnvEvent{Name: "arm-write-failure", Weight: 1 + e.writeFailPct/10, Do: func() { e.armedWriteFail = 1 + r.Choose(2, "nfail") }})
		}
		if e.writeFailPct > 0 && e.armedAgentStartFail == 0 {
			ev = append(ev, EnvEvent{Name: "arm-agent-reregistration-failure", Weight: 1, Do: func() { e.armedAgentStartFail = 1 }})
		}
		if e.writeFailPct > 0 && e.armedWriteBlock == 0 && e.writeBlocksLeft > 0 && !e.noConnClose {
			ev = append(ev, EnvEvent{Name: "arm-write-block", Weight: 1, Do: func() { e.armedWriteBlock = 1; e.writeBlocksLeft-- }})
		}
		if e.readFailPct > 0 && e.armedReadFail == 0 {
			ev = append(ev, EnvEvent{Name: "arm-read-failure", Weight: 1, Do: func() { e.armedReadFail = 1 }})
		}
	}
	// clock
	if (chaos || (e.phase == phHeal && e.healClock < 300)) && len(e.incomplete()) > 0 && !(e.closeOK != nil && e.closeOK.done) && !(e.burst && e.callersBusy()) {
		ev = append(ev, EnvEvent{Name: "clock", Weight: 3, Do: func() {
			var d time.Duration
			if e.phase == phHeal {
				e.healClock++
			}
			// chaos must not spin on the clock: 60 clock events in a row without
			// any progress (write, handler, return) means the rest is for heal
			if p := e.progress(); p == e.clockProgress {
				e.clockIdle++
				if e.clockIdle > 60 && e.phase == phChaos {
					e.phase = phHeal
				}
			} else {
				e.clockProgress, e.clockIdle = p, 0
			}
			dl, ok := e.earliestDeadline()
			k := r.Choose(7, "clock-kind")
			if e.phase == phHeal && k < 3 {
				k = 3 + k
			}
			switch {
			case k == 0:
				d = 1
			case k == 1:
				d = e.effRate()
			case k == 2:
				d = 0 // tick without time passing (stall)
			case k == 3 && ok: // exactly to the earliest deadline
				d = dl.Sub(e.vnow())
				e.stats["probe_clock_at_exact_deadline"]++
			case k == 4 && ok: // 1ns past it
				d = dl.Sub(e.vnow()) + 1
				e.stats["probe_clock_just_after_deadline"]++
			case k == 5 && ok: // 1ns before it
				d = dl.Sub(e.vnow()) - 1
				e.stats["probe_clock_just_before_deadline"]++
			default: // jump over several deadlines
				d = time.Duration(1+r.Choose(20, "jump")) * 500 * time.Millisecond
				e.stats["fault_clock_jump"]++
			}
			if d < 0 {
				d = 0
			}
			if !e.manual && d == 0 {
				return
			}
			tick := true
			if e.manual && chaos && r.Pct(15, "drop-tick") {
				tick = false
				e.stats["fault_tick_dropped"]++
			}
			e.advance(d, tick)
			e.r.Logf("clock +%v tick=%v now=%v", d, tick, e.vnow().Sub(baseTime))
		}})
	}
	if chaos && e.r.Steps > e.chaosCap {
		e.phase = phHeal
	}
	return ev
}

func (e *clientEngine) Check() *Violation {
	if e.viol != nil {
		return e.viol
	}
	return nil
}

// spawnCallers starts the caller tasks as soon as NewClient has returned: they
// race with the goroutines NewClient started (the reader may not have run yet).
func (e *clientEngine) spawnCallers() {
	if e.phase != phSetup || e.client == nil {
		return
	}
	r := e.r
	e.phase = phChaos
	setup := r.Sim.Tasks[0]
	for i := 0; i < e.nCallers; i++ {
		e.callers = append(e.callers, r.Sim.Spawn(fmt.Sprintf("C%d", i), e.callerScript(i), setup))
	}
}

func (e *clientEngine) Quiescent() bool {
	r := e.r
	switch e.phase {
	case phSetup:
		if e.client == nil {
			return false
		}
		e.spawnCallers()
		return true
	case phChaos:
		e.phase = phHeal
		return true
	case phHeal:
		// nothing runnable, nothing pending: push time until every transaction
		// has ended; give up after two rounds without any progress (a write or
		// a handler invocation) although every deadline has passed
		if inc := e.incomplete(); len(inc) > 0 && e.healRounds < 80 && !(e.closeOK != nil && e.closeOK.done) {
			prog := e.progress()
			if prog == e.lastProgress {
				e.idleRounds++
			} else {
				e.idleRounds = 0
			}
			e.lastProgress = prog
			if e.idleRounds < 3 {
				e.healRounds++
				var rmax time.Duration
				for _, s := range e.setrtos {
					if s.v > rmax {
						rmax = s.v
					}
				}
				if e.rto0 == 0 && rmax < 3*time.Second {
					rmax = 3 * time.Second // assumed upper bound of the library's default RTO
				}
				k := 0
				for _, t := range inc {
					if len(t.writes) > k {
						k = len(t.writes)
					}
				}
				e.advance(time.Duration(k+1)*rmax+e.effRate()+time.Millisecond, true)
				e.r.Logf("heal round %d: clock now=%v", e.healRounds, e.vnow().Sub(baseTime))
				return true
			}
		}
		if inc := e.incomplete(); len(inc) > 0 && e.idleRounds >= 3 && !e.closeBegan && e.viol == nil && e.rto0 != 0 {
			// the client is open, no faults flow any more, the clock was pushed past
			// every possible deadline three times over with a tick each time, and
			// nothing happened: the timeout of this transaction is never delivered
			t := inc[0]
			e.fail(t, "C10", "timeout-never-delivered", "%s is still in flight although the clock (now %v) has passed each of its possible deadlines several times, with collector ticks, while the client is open (writes %d)",
				t.name(), e.vnow().Sub(baseTime), len(t.writes))
			return true
		}
		if !e.closeBegan && e.viol == nil {
			// nothing is runnable and Close was never called: the reader must
			// have consumed everything the network delivered
			if len(e.inbox) > 0 {
				e.fail(nil, "C12", "reader-not-consuming", "%d delivered datagrams were never read although the client is open and the run is quiescent (first: %s, id=%x)", len(e.inbox), e.inbox[0].kind, e.inbox[0].id[8:])
				return true
			}
		}
		e.phase = phClose
		if e.closeOK == nil {
			e.stats["close_in_close_phase"]++
			n := 1 + r.Choose(3, "nclosers")
			fin := r.Pct(10, "close-via-finalizer")
			if fin {
				n = 1
			}
			for i := 0; i < n; i++ {
				r.Sim.Spawn(fmt.Sprintf("closer%d", i), func() { e.doClose2(r.Sim.Cur(), fin) }, r.Sim.Tasks[0])
			}
			return true
		}
		fallthrough
	case phClose:
		e.phase = phPost
		if e.closeOK != nil && e.closeOK.done {
			r.Sim.Spawn("post", func() {
				tk := r.Sim.Cur()
				e.startTx(tk, txStart, nil)
				e.startTx(tk, txDo, nil)
				e.startTx(tk, txIndicate, nil)
				e.doClose2(tk, r.Pct(30, "post-finalizer"))
				e.doSetRTO(tk)
			}, r.Sim.Tasks[0])
			return true
		}
		fallthrough
	case phPost:
		e.phase = phEnd
	}
	return false
}

func (e *clientEngine) Finish() *Violation {
	r := e.r
	if e.viol != nil {
		return e.viol
	}
	e.finishDatagram()
	if e.viol != nil {
		return e.viol
	}
	e.stats["transactions"] = len(e.txs)
	// C15: one Close succeeded
	if e.closeOK == nil || !e.closeOK.done {
		for _, c := range e.closes {
			if !c.done {
				tk := r.Sim.Tasks[c.task]
				return &Violation{Property: "C15", Class: "close-stuck", Msg: fmt.Sprintf("Close called by %s never returned: task is %v at %s (label %q)", tk.Name, tk.State, verifrt.SiteName(tk.Site), tk.Label)}
			}
		}
		return &Violation{Property: "C15", Class: "close-never-succeeded", Msg: "no Close call succeeded"}
	}
	// C10 liveness at quiescence after heal and Close
	for _, t := range e.txs {
		if t.kind == txIndicate {
			continue
		}
		if !t.returned {
			tk := r.Sim.Tasks[t.task]
			class := "start-never-returned"
			if t.kind == txDo {
				class = "do-never-returned"
			}
			e.fail(t, "C10", class, "%s never returned (handler invocations: %d): task %s is %v at %s (label %q); Close returned: %v",
				t.name(), len(t.calls), tk.Name, tk.State, verifrt.SiteName(tk.Site), tk.Label, e.closeOK.done)
			return e.viol
		}
		if t.ret == nil && len(t.calls) == 0 {
			e.fail(t, "C10", "handler-never-invoked", "%s returned nil but its handler was never invoked (writes %d, Close began: %v, clock advanced %v)",
				t.name(), len(t.writes), e.closeBegan, e.advanced)
			return e.viol
		}
	}
	// every task has finished
	for _, tk := range r.Sim.Unfinished() {
		prop := "C15"
		return &Violation{Property: prop, Class: "task-stuck", Msg: fmt.Sprintf("run is quiescent but task %s is %v at %s (label %q, in %v)", tk.Name, tk.State, verifrt.SiteName(tk.Site), tk.Label, tk.FuncStack())}
	}
	// with retransmission disabled the request is written exactly once
	for _, t := range e.txs {
		if t.returned && t.ret == nil && t.limit == 0 && len(t.writes) != 1 {
			return &Violation{Property: "C11", Class: "no-retransmit-write-count", Msg: fmt.Sprintf("%s was written %d times with retransmission disabled", t.name(), len(t.writes))}
		}
	}
	return nil
}

// MatchKnown evaluates known-finding signatures on this run.
func (e *clientEngine) MatchKnown(sig string, v *Violation) bool {
	switch sig {
	case "response-processed-while-transaction-unregistered-for-retransmission":
		// K-c: the client's handling of an agent timeout event for transaction X
		// (retransmission path) overlapped the processing of a datagram with id X
		// or X's own Start call; the violation concerns X (or, for races and
		// panics, the pooled transaction object / the callback itself).
		if !e.kcSeen {
			return false
		}
		// Since /repo 8caaba7 (the stale-pointer half of the finding is repaired)
		// only the benign half is left: while X is unregistered for the
		// retransmission, a response for X goes to the fallback handler or is
		// dropped. Nothing else is attributed: every other class, and these two
		// classes on a transaction or datagram without the overlap, is reported.
		explained := map[string]bool{"inflight-to-fallback": true, "response-not-delivered": true}
		if !explained[v.Class] || e.viol != v {
			return false
		}
		if e.violTx != nil {
			return e.violTx.kcA
		}
		if d := e.violDatagram; d != nil && d.decodes {
			if d.overlapCB {
				return true
			}
			if tx := e.byID[d.id]; tx != nil {
				return tx.kcA
			}
		}
		return false
	}
	return false
}

var _ = sort.Strings
