package verifsim

import (
	"encoding/json"
	"fmt"
	"io"
	"log"
	"os"
	"runtime/debug"
	"strconv"
	"testing"
	"time"

	"verifrt"
)

func envInt(name string, def int64) int64 {
	if s := os.Getenv(name); s != "" {
		v, err := strconv.ParseInt(s, 10, 64)
		if err == nil {
			return v
		}
	}
	return def
}

// WorkerOut is what one worker process reports to the driver.
type WorkerOut struct {
	Engine        string         `json:"engine"`
	Profile       string         `json:"profile"`
	Seed          uint64         `json:"seed"`
	Runs          int            `json:"runs"`
	FirstIdx      uint64         `json:"first_idx"`
	LastIdx       uint64         `json:"last_idx"`
	Steps         int64          `json:"steps"`
	SimTimeS      float64        `json:"sim_time_s"`
	WallS         float64        `json:"wall_s"`
	Stats         map[string]int `json:"stats"`
	FPs           []string       `json:"fps"`   // schedule fingerprints of non-trivial runs
	Hists         []string       `json:"hists"` // operation-history fingerprints (schedule-independent)
	Hashes        []string       `json:"hashes,omitempty"`
	StepCaps      int            `json:"step_caps"`
	Leftover      int            `json:"leftover_runs"`
	Harness       string         `json:"harness,omitempty"`
	Viols         []*ReplayFile  `json:"violations,omitempty"`
	Other         map[string]int `json:"ended_by_other_property,omitempty"`
	Known         map[string]int `json:"known,omitempty"`
	Samples       []any          `json:"samples,omitempty"`
	SiteHits      []uint32       `json:"site_hits,omitempty"`
	SiteNames     []string       `json:"site_names,omitempty"`
	StepCapSample []string       `json:"step_cap_sample,omitempty"`
	SeqReplays    int            `json:"seq_replays,omitempty"`
}

// TestWorker runs simulated executions idx = from, from+stride, ... < to (or
// until the wall budget is used) and writes a WorkerOut JSON to VERIF_OUT.
func TestWorker(t *testing.T) {
	engine := os.Getenv("VERIF_ENGINE")
	if engine == "" {
		t.Skip("not a worker invocation")
	}
	debug.SetGCPercent(-1)
	log.SetOutput(io.Discard) // the client's finalizer path logs
	profile := os.Getenv("VERIF_PROFILE")
	tier := os.Getenv("VERIF_TIER")
	if tier == "" {
		tier = "quick"
	}
	seed := uint64(envInt("VERIF_SEED", 1))
	from := uint64(envInt("VERIF_FROM", 0))
	to := uint64(envInt("VERIF_TO", 1<<62))
	stride := uint64(envInt("VERIF_STRIDE", 1))
	budget := time.Duration(envInt("VERIF_BUDGET_MS", 10000)) * time.Millisecond
	maxRuns := int(envInt("VERIF_MAXRUNS", 1<<30))
	wantHashes := os.Getenv("VERIF_HASHES") != ""
	stopOnViol := os.Getenv("VERIF_KEEP_GOING") == ""
	minBudget := time.Duration(envInt("VERIF_MIN_MS", 20000)) * time.Millisecond
	out := &WorkerOut{Engine: engine, Profile: profile, Seed: seed, Stats: map[string]int{}, Other: map[string]int{}, Known: map[string]int{}, FirstIdx: from}
	known := loadKnown()
	start := time.Now()
	seenFP := map[string]bool{}
	dumped := false
	for idx := from; idx < to && out.Runs < maxRuns; idx += stride {
		if time.Since(start) > budget {
			break
		}
		r := doRun(t, engine, profile, tier, seed, idx, nil, false)
		out.Runs++
		out.LastIdx = idx
		out.Steps += int64(r.Steps)
		out.SimTimeS += r.SimTime.Seconds()
		if wantHashes {
			out.Hashes = append(out.Hashes, fmt.Sprintf("%d:%016x", idx, r.logHash))
		}
		if r.Harness != "" {
			out.Harness = fmt.Sprintf("run %d: %s", idx, r.Harness)
			break
		}
		if r.StepCap {
			out.StepCaps++
			if out.StepCapSample == nil {
				rr := doRun(t, engine, profile, tier, seed, idx, r.Trace, true)
				n := len(rr.LogLines)
				if n > 60 {
					rr.LogLines = rr.LogLines[n-60:]
				}
				out.StepCapSample = append([]string{fmt.Sprintf("run %d", idx)}, rr.LogLines...)
			}
		}
		if r.Leftover > 0 {
			out.Leftover++
		}
		if r.eng != nil {
			for k, v := range r.eng.Stats() {
				out.Stats[k] += v
			}
			if r.Sim != nil {
				if out.SiteHits == nil {
					out.SiteHits = make([]uint32, len(r.Sim.SiteHits))
				}
				for i, h := range r.Sim.SiteHits {
					if i < len(out.SiteHits) {
						out.SiteHits[i] += h
					}
				}
				out.Stats["pool_get"] += r.Sim.PoolStats.Get
				out.Stats["pool_recycled"] += r.Sim.PoolStats.Recycled
				out.Stats["pool_recycled_across_tasks"] += r.Sim.PoolStats.CrossTask
				out.Stats["pool_dropped"] += r.Sim.PoolStats.Dropped
				out.Stats["pool_double_put"] += r.Sim.PoolStats.DoublePut
				out.Stats["yield_inside_lock"] += r.Sim.InLockYields
			}
			if r.eng.NonTrivial() {
				fp := fmt.Sprintf("%016x", r.schedFP^r.eng.HistoryHash())
				if !seenFP[fp] {
					seenFP[fp] = true
					out.FPs = append(out.FPs, fp)
				}
				hh := fmt.Sprintf("h%016x", r.eng.HistoryHash())
				if !seenFP[hh] {
					seenFP[hh] = true
					out.Hists = append(out.Hists, hh)
				}
			}
			if len(out.Samples) < 2 && r.Viol == nil && r.eng.NonTrivial() {
				out.Samples = append(out.Samples, map[string]any{"run": idx, "steps": r.Steps, "switches": r.Switches, "world": r.eng.Describe()})
			}
		}
		if r.Viol != nil {
			if k := known.match(r); k != "" {
				out.Known[k]++
				out.Known[k+"/"+r.Viol.Property+":"+r.Viol.Class]++
				if dump := os.Getenv("VERIF_DUMP_KNOWN"); dump != "" && !dumped && (os.Getenv("VERIF_DUMP_CLASS") == "" || os.Getenv("VERIF_DUMP_CLASS") == r.Viol.Class) {
					dumped = true
					best := minimise(t, r, minBudget, known)
					a := doRun(t, engine, profile, tier, seed, idx, best.Trace, true)
					known.match(a)
					rf := &ReplayFile{Property: r.Viol.Property, Engine: engine, Profile: profile, Tier: tier, Seed: seed, Run: idx,
						Decisions: trimZeros(best.Trace), Violation: a.Viol, LogHash: fmt.Sprintf("%016x", a.logHash), Log: a.LogLines, OrigLen: len(r.Trace)}
					if a.eng != nil {
						rf.Describe = a.eng.Describe()
					}
					writeJSON(dump, rf)
				}
				continue
			}
			if r.Viol.Property != profile {
				out.Other[r.Viol.Property+":"+r.Viol.Class]++
				continue
			}
			if wantHashes {
				// determinism mode: record, do not minimise
				out.Other[r.Viol.Property+":"+r.Viol.Class]++
				continue
			}
			best := minimise(t, r, minBudget, known)
			// confirm by replaying the minimised trace twice with log kept
			a := doRun(t, engine, profile, tier, seed, idx, best.Trace, true)
			b := doRun(t, engine, profile, tier, seed, idx, best.Trace, false)
			rf := &ReplayFile{Property: r.Viol.Property, Engine: engine, Profile: profile, Tier: tier, Seed: seed, Run: idx,
				Decisions: trimZeros(best.Trace), Violation: a.Viol, LogHash: fmt.Sprintf("%016x", a.logHash), Log: a.LogLines, OrigLen: len(r.Trace),
				SeqFrom: from, SeqStride: stride, OrigLogHash: fmt.Sprintf("%016x", r.logHash)}
			if a.eng != nil {
				rf.Describe = a.eng.Describe()
			}
			if !sameViolation(a.Viol, r.Viol) || a.logHash != b.logHash {
				// The run does not reproduce on its own in this process: its outcome
				// depends on state that earlier runs of this process left behind in
				// the code under test (a package-level variable). Report it as a
				// sequence replay: a fresh process re-executes the runs of this
				// process in order up to the failing one.
				rf = &ReplayFile{Property: r.Viol.Property, Engine: engine, Profile: profile, Tier: tier, Seed: seed, Run: idx,
					Violation: r.Viol, LogHash: fmt.Sprintf("%016x", r.logHash), OrigLen: len(r.Trace),
					SeqFrom: from, SeqStride: stride, SeqUsed: true}
				if r.eng != nil {
					rf.Describe = r.eng.Describe()
				}
				out.Viols = append(out.Viols, rf)
				out.SeqReplays++
				break
			}
			out.Viols = append(out.Viols, rf)
			if stopOnViol {
				break
			}
		}
	}
	out.WallS = time.Since(start).Seconds()
	if from < stride && from == 0 {
		out.SiteNames = verifrt.SiteNames
	}
	if p := os.Getenv("VERIF_OUT"); p != "" {
		if err := writeJSON(p, out); err != nil {
			t.Fatal(err)
		}
	} else {
		b, _ := json.Marshal(out)
		fmt.Println(string(b))
	}
}

func trimZeros(tr []uint32) []uint32 {
	n := len(tr)
	for n > 0 && tr[n-1] == 0 {
		n--
	}
	return append([]uint32(nil), tr[:n]...)
}

// TestReplay re-executes a replay file (VERIF_REPLAY) and reports whether the
// recorded violation reproduces with the recorded log hash.
func TestReplay(t *testing.T) {
	p := os.Getenv("VERIF_REPLAY")
	if p == "" {
		t.Skip("not a replay invocation")
	}
	debug.SetGCPercent(-1)
	b, err := os.ReadFile(p)
	if err != nil {
		t.Fatal(err)
	}
	var rf ReplayFile
	if err := json.Unmarshal(b, &rf); err != nil {
		t.Fatal(err)
	}
	dec := rf.Decisions
	if dec == nil {
		dec = []uint32{}
	}
	var r *Run
	if rf.SeqUsed {
		// re-execute the failing process's runs in order (state carried in
		// package-level variables of the code under test)
		for idx := rf.SeqFrom; ; idx += rf.SeqStride {
			r = doRun(t, rf.Engine, rf.Profile, rf.Tier, rf.Seed, idx, nil, idx == rf.Run)
			if idx >= rf.Run {
				break
			}
		}
	} else {
		r = doRun(t, rf.Engine, rf.Profile, rf.Tier, rf.Seed, rf.Run, dec, true)
	}
	loadKnown().match(r)
	if os.Getenv("VERIF_SHOWLOG") != "" {
		for _, l := range r.LogLines {
			fmt.Println(l)
		}
	}
	res := map[string]any{"log_hash": fmt.Sprintf("%016x", r.logHash), "recorded_hash": rf.LogHash, "violation": r.Viol, "recorded_violation": rf.Violation, "harness": r.Harness,
		"reproduced": sameViolation(r.Viol, rf.Violation), "same_hash": fmt.Sprintf("%016x", r.logHash) == rf.LogHash}
	if r.eng != nil {
		res["world"] = r.eng.Describe()
	}
	if out := os.Getenv("VERIF_OUT"); out != "" {
		writeJSON(out, res)
	}
	jb, _ := json.MarshalIndent(res, "", " ")
	fmt.Println(string(jb))
}
