// Package verifsim: deterministic simulation harness for pion/stun.
// core.go: one decision stream, the scheduler loop, logging, replay, minimisation.
package verifsim

import (
	"encoding/json"
	"fmt"
	"hash/fnv"
	"math/rand/v2"
	"os"
	"runtime"
	"runtime/debug"
	"sort"
	"strings"
	"testing"
	"testing/synctest"
	"time"

	"verifrt"
)

// Violation is what an oracle reports.
type Violation struct {
	Property string `json:"property"`
	Class    string `json:"class"` // stable, short: used to decide "same violation" while minimising
	Msg      string `json:"msg"`
	Known    string `json:"known,omitempty"` // id of the known finding this matches, if any
}

func (v *Violation) String() string {
	return fmt.Sprintf("property=%s class=%s: %s", v.Property, v.Class, v.Msg)
}

// EnvEvent is an enabled environment event (network, clock, fault, ...).
type EnvEvent struct {
	Name   string
	Weight int
	Do     func()
}

// Engine is one simulated world.
type Engine interface {
	// Setup draws the run configuration and spawns the initial tasks.
	Setup(r *Run)
	// Env lists the environment events enabled now.
	Env() []EnvEvent
	// Check is evaluated after every step.
	Check() *Violation
	// Quiescent is called when no task is runnable and no env event is
	// enabled; it may enable something (phase change) and return true to
	// continue, or return false to end the run.
	Quiescent() bool
	// Finish runs the end-of-run oracles.
	Finish() *Violation
	// Stats returns counters (faults fired, probes) for this run.
	Stats() map[string]int
	// Describe returns a compact description of the run (config + ops) for evidence samples.
	Describe() any
	// NonTrivial reports whether the run counts as non-trivial for the evidence.
	NonTrivial() bool
	// HistoryHash fingerprints the operation history of the run.
	HistoryHash() uint64
}

// Run is one simulated execution: a pure function of (Seed, Idx, Replay, code).
type Run struct {
	Engine  string
	Profile string
	Tier    string
	Seed    uint64
	Idx     uint64

	rng      *rand.Rand
	Trace    []uint32 // decisions taken (value)
	TraceN   []uint32 // option counts
	Replay   []uint32 // if non-nil: decisions to replay
	replayOn bool

	Sim   *verifrt.Sim
	Steps int
	Cap   int

	logHash  uint64
	LogLines []string
	KeepLog  bool
	seq      int

	lastTask   *verifrt.Task
	StayWeight int
	EnvWeight  int
	Switches   int
	schedFP    uint64

	SimTime time.Duration
	start   time.Time

	Policy    int // 0: weighted random with stickiness; 1: PCT priorities
	pctPrio   map[int]int
	pctChange []int
	pctEnv    int
	pctLow    int
	pctLastID int
	pctStreak int

	Viol     *Violation
	StepCap  bool
	Harness  string // non-empty: harness trouble (exit 2 material)
	Leftover int
	MinTries int
	eng      Engine
}

const fnvOff = 14695981039346656037
const fnvPrime = 1099511628211

func (r *Run) hashStr(s string) {
	h := r.logHash
	for i := 0; i < len(s); i++ {
		h ^= uint64(s[i])
		h *= fnvPrime
	}
	h ^= '\n'
	h *= fnvPrime
	r.logHash = h
}

// Logf appends to the event log. It never draws and never reads a clock.
func (r *Run) Logf(f string, a ...any) {
	r.seq++
	s := fmt.Sprintf(f, a...)
	r.hashStr(s)
	if r.KeepLog {
		r.LogLines = append(r.LogLines, fmt.Sprintf("%5d %s", r.seq, s))
	}
}

// Seq is the global event sequence number (used to stamp invoke/return).
func (r *Run) Seq() int { r.seq++; return r.seq }

// Choose is the only source of nondeterminism in a run.
func (r *Run) Choose(n int, label string) int {
	if n <= 1 {
		return 0
	}
	var v int
	if r.replayOn {
		i := len(r.Trace)
		if i < len(r.Replay) {
			v = int(r.Replay[i] % uint32(n))
		}
	} else {
		v = r.rng.IntN(n)
	}
	r.Trace = append(r.Trace, uint32(v))
	r.TraceN = append(r.TraceN, uint32(n))
	if r.KeepLog {
		r.LogLines = append(r.LogLines, fmt.Sprintf("      ? %s %d/%d", label, v, n))
	}
	return v
}

// Pct draws a boolean that is true with probability p percent; value 0 (the
// "boring" replay value) is always false.
func (r *Run) Pct(p int, label string) bool {
	if p <= 0 {
		return false
	}
	return r.Choose(100, label) >= 100-p
}

// Pick draws an index with the given weights (index 0 is the boring option).
func (r *Run) Pick(weights []int, label string) int {
	tot := 0
	for _, w := range weights {
		tot += w
	}
	if tot <= 0 {
		return 0
	}
	v := r.Choose(tot, label)
	for i, w := range weights {
		if v < w {
			return i
		}
		v -= w
	}
	return len(weights) - 1
}

func newRun(engine, profile, tier string, seed, idx uint64, replay []uint32) *Run {
	r := &Run{Engine: engine, Profile: profile, Tier: tier, Seed: seed, Idx: idx, logHash: fnvOff}
	r.rng = rand.New(rand.NewPCG(seed, idx*0x9e3779b97f4a7c15+0x1234567))
	if replay != nil {
		r.Replay = replay
		r.replayOn = true
	}
	return r
}

func makeEngine(name string) Engine {
	switch name {
	case "agent":
		return &agentEngine{}
	case "client":
		return &clientEngine{}
	case "hmac":
		return &hmacEngine{}
	}
	panic("unknown engine " + name)
}

// Advance moves the bubble's fake clock (scheduler goroutine only).
func (r *Run) Advance(d time.Duration) {
	if d <= 0 {
		return
	}
	time.Sleep(d)
	r.SimTime += d
}

// execute performs the run inside a synctest bubble.
func (r *Run) execute(t *testing.T) {
	defer func() {
		if p := recover(); p != nil {
			msg := fmt.Sprint(p)
			if strings.Contains(msg, "deadlock: main bubble goroutine has exited") {
				// tasks left blocked for ever at the end of the run: the run's own
				// verdict (violation or not) stands; the goroutines are leaked.
				return
			}
			r.Harness = "panic in scheduler: " + msg + "\n" + string(debug.Stack())
		}
	}()
	synctest.Test(t, func(t *testing.T) {
		sim := verifrt.New()
		sim.Choose = r.Choose
		if r.KeepLog && os.Getenv("VERIF_RTDEBUG") != "" {
			sim.Debug = func(m string) { r.LogLines = append(r.LogLines, "      # "+m) }
		}
		r.Sim = sim
		verifrt.S = sim
		defer func() { verifrt.S = nil }()
		r.start = time.Now()
		eng := makeEngine(r.Engine)
		r.eng = eng
		r.StayWeight = 1
		r.EnvWeight = 1
		r.Cap = 200000
		eng.Setup(r)
		r.loop()
		if r.Viol == nil && r.Harness == "" && !r.StepCap {
			r.Viol = eng.Finish()
		}
		r.Leftover = len(sim.Unfinished())
	})
}

func (r *Run) taskPanic() *Violation {
	for _, tk := range r.Sim.Tasks {
		if tk.Panic != "" {
			class := "panic"
			if _, ok := tk.PanicVal.(*verifrt.Deadlock); ok {
				class = "deadlock-lock"
			}
			if hv, ok := tk.PanicVal.(*harnessPanic); ok {
				r.Harness = hv.msg
				return nil
			}
			first := tk.Panic
			if i := strings.IndexByte(first, '\n'); i > 0 {
				first = first[:i]
			}
			return &Violation{Property: "", Class: class + ":" + trimClass(first), Msg: fmt.Sprintf("task %s: %s", tk.Name, tk.Panic)}
		}
	}
	return nil
}

type harnessPanic struct{ msg string }

func trimClass(s string) string {
	if len(s) > 60 {
		s = s[:60]
	}
	return s
}

func (r *Run) loop() {
	sim := r.Sim
	for {
		synctest.Wait()
		if v := r.taskPanic(); v != nil {
			r.Viol = r.attribute(v)
			return
		}
		if r.Harness != "" {
			return
		}
		if len(sim.Races) > 0 {
			r.Viol = r.attribute(&Violation{Class: "race:" + raceClass(sim.Races[0]), Msg: sim.Races[0]})
			return
		}
		if v := r.eng.Check(); v != nil {
			r.Viol = v
			return
		}
		run := sim.Runnable()
		env := r.eng.Env()
		if len(run) == 0 && len(env) == 0 {
			if r.eng.Quiescent() {
				continue
			}
			return
		}
		r.Steps++
		if r.Steps > r.Cap {
			r.StepCap = true
			return
		}
		// option 0 = keep running the task that ran last (boring)
		weights := make([]int, 0, len(run)+len(env))
		opts := make([]func(), 0, len(run)+len(env))
		order := run
		if r.lastTask != nil {
			for i, tk := range run {
				if tk == r.lastTask {
					order = append([]*verifrt.Task{tk}, append(append([]*verifrt.Task{}, run[:i]...), run[i+1:]...)...)
					break
				}
			}
		}
		for _, tk := range order {
			tk := tk
			w := 4
			if tk == r.lastTask {
				w = 4 * r.StayWeight
			}
			if tk.Prio > 0 {
				w *= tk.Prio
			}
			weights = append(weights, w)
			opts = append(opts, func() {
				if r.lastTask != tk {
					r.Switches++
					r.schedFP = (r.schedFP ^ uint64(tk.ID*1000003+tk.Site+7)) * fnvPrime
				}
				r.lastTask = tk
				r.Logf("run %s @%s", tk.Name, verifrt.SiteName(tk.Site))
				sim.Release(tk)
			})
		}
		for _, e := range env {
			e := e
			w := e.Weight
			if w <= 0 {
				w = 1
			}
			weights = append(weights, w*r.EnvWeight)
			opts = append(opts, func() {
				r.schedFP = (r.schedFP ^ hashName(e.Name)) * fnvPrime
				r.Logf("env %s", e.Name)
				e.Do()
			})
		}
		if r.Policy == 1 {
			opts[r.pctPick(order, len(env))]()
			continue
		}
		opts[r.Pick(weights, "sched")]()
	}
}

// pctPick implements a PCT-style policy (Burckhardt et al.): every task gets a
// random priority when first seen, the highest-priority runnable task runs, and
// at a few pre-drawn step numbers the running task's priority drops below all
// others. Environment events compete as one pseudo-task whose priority is
// re-drawn after each event. Far fewer draws per run than the weighted policy.
func (r *Run) pctPick(tasks []*verifrt.Task, nenv int) int {
	if r.pctPrio == nil {
		r.pctPrio = map[int]int{}
		n := 1 + r.Choose(4, "pct-d")
		for i := 0; i < n; i++ {
			r.pctChange = append(r.pctChange, 1+r.Choose(600, "pct-change-point"))
		}
		r.pctEnv = 1 + r.Choose(1000, "pct-env-prio")
	}
	for _, c := range r.pctChange {
		if c == r.Steps && r.lastTask != nil {
			r.pctLow--
			r.pctPrio[r.lastTask.ID] = r.pctLow
		}
	}
	// fairness: a task that has run 300 steps in a row without finishing or
	// blocking is polling (e.g. the reader between conn.Close and close(c.close));
	// PCT assumes such loops yield, so its priority drops
	if r.lastTask != nil && r.pctLastID == r.lastTask.ID {
		r.pctStreak++
		if r.pctStreak > 300 {
			r.pctLow--
			r.pctPrio[r.lastTask.ID] = r.pctLow
			r.pctStreak = 0
		}
	} else if r.lastTask != nil {
		r.pctLastID, r.pctStreak = r.lastTask.ID, 0
	}
	best, bestP := -1, -1<<30
	for i, tk := range tasks {
		p, ok := r.pctPrio[tk.ID]
		if !ok {
			p = 1 + r.Choose(1000, "pct-prio")
			r.pctPrio[tk.ID] = p
		}
		if p > bestP {
			best, bestP = i, p
		}
	}
	if nenv > 0 && (best < 0 || r.pctEnv > bestP) {
		r.pctEnv = 1 + r.Choose(1000, "pct-env-prio")
		return len(tasks) + r.Choose(nenv, "pct-env")
	}
	return best
}

func hashName(s string) uint64 {
	h := fnv.New64a()
	h.Write([]byte(s))
	return h.Sum64()
}

func raceClass(s string) string {
	// "data race on <expr> <func>: ..." or "data race on <file:line> <op> <func>: ..."
	s = strings.TrimPrefix(s, "data race on ")
	if i := strings.Index(s, ": "); i > 0 {
		s = s[:i]
	}
	f := strings.Fields(s)
	if len(f) >= 3 {
		return f[1] + "@" + f[2]
	}
	if len(f) >= 1 {
		return f[0]
	}
	return s
}

// attribute assigns a property to engine-independent violations (panic, race, deadlock).
func (r *Run) attribute(v *Violation) *Violation {
	if v.Property == "" {
		v.Property = r.Profile
		// data races and lock deadlocks are clauses of specific properties
		if strings.HasPrefix(v.Class, "race:") || strings.HasPrefix(v.Class, "deadlock") {
			switch r.Engine {
			case "client":
				v.Property = "C15"
				if strings.HasPrefix(v.Class, "deadlock") && (r.Profile == "C10" || r.Profile == "C12") {
					// a task that can never proceed also breaks exactly-once completion
					// (C10) and, when it is the reader, every later delivery (C12)
					v.Property = r.Profile
				}
			case "agent":
				v.Property = "C14"
			}
		}
	}
	return v
}

// Result of one run, as reported by workers.
type RunResult struct {
	Idx      uint64         `json:"idx"`
	Hash     string         `json:"hash"`
	Steps    int            `json:"steps"`
	Switches int            `json:"switches"`
	FP       string         `json:"fp"`
	SimTimeS float64        `json:"sim_time_s"`
	Viol     *Violation     `json:"viol,omitempty"`
	StepCap  bool           `json:"step_cap,omitempty"`
	Harness  string         `json:"harness,omitempty"`
	Leftover int            `json:"leftover,omitempty"`
	Stats    map[string]int `json:"stats,omitempty"`
}

var runCount int

func doRun(t *testing.T, engine, profile, tier string, seed, idx uint64, replay []uint32, keepLog bool) *Run {
	r := newRun(engine, profile, tier, seed, idx, replay)
	r.KeepLog = keepLog
	r.execute(t)
	verifrt.S = nil
	runCount++
	if runCount%16 == 0 {
		runtime.GC()
	}
	return r
}

// ReplayFile is the on-disk form of a failing (or sample) run.
type ReplayFile struct {
	Property  string     `json:"property"`
	Engine    string     `json:"engine"`
	Profile   string     `json:"profile"`
	Tier      string     `json:"tier"`
	Seed      uint64     `json:"seed"`
	Run       uint64     `json:"run"`
	Decisions []uint32   `json:"decisions"`
	Violation *Violation `json:"violation"`
	LogHash   string     `json:"log_hash"`
	TreeHash  string     `json:"tree_hash"`
	Describe  any        `json:"describe,omitempty"`
	Log       []string   `json:"log,omitempty"`
	OrigLen   int        `json:"orig_decisions,omitempty"`
	SeqUsed   bool       `json:"sequence_replay,omitempty"` // the run only fails after the earlier runs of its worker process
	SeqFrom   uint64     `json:"sequence_from"`
	SeqStride uint64     `json:"sequence_stride"`
	// event-log hash of the run as first found (before minimisation)
	OrigLogHash string `json:"orig_log_hash,omitempty"`
}

func sameViolation(a, b *Violation) bool {
	return a != nil && b != nil && a.Property == b.Property && a.Class == b.Class
}

// minimise shrinks the decision trace of a failing run by delta debugging:
// truncate, lower the leading (configuration) draws, zero chunks, delete
// chunks, lower single values -- as long as the same violation class for the
// same property recurs.  Replay feeds value%n, and zeros once the trace is
// exhausted; 0 is always the boring option.
func minimise(t *testing.T, orig *Run, budget time.Duration, known *knownSet) *Run {
	wantKnown := ""
	if orig.Viol != nil {
		wantKnown = orig.Viol.Known
	}
	best := orig
	cur := append([]uint32(nil), orig.Trace...)
	deadline := time.Now().Add(budget)
	tries := 0
	try := func(cand []uint32) bool {
		if time.Now().After(deadline) {
			return false
		}
		tries++
		rr := doRun(t, orig.Engine, orig.Profile, orig.Tier, orig.Seed, orig.Idx, cand, false)
		if rr.Harness == "" && sameViolation(rr.Viol, orig.Viol) && known.match(rr) == wantKnown {
			best = rr
			cur = trimZeros(rr.Trace)
			return true
		}
		return false
	}
	weight := func(tr []uint32) int {
		n := 0
		for _, v := range tr {
			if v != 0 {
				n++
			}
		}
		return n*1000 + len(tr)
	}
	cur = trimZeros(cur)
	for round := 0; round < 6 && time.Now().Before(deadline); round++ {
		before := weight(cur)
		// A. strip the tail (binary search on the prefix length that still fails)
		lo, hi := 0, len(cur)
		for lo < hi && time.Now().Before(deadline) {
			mid := (lo + hi) / 2
			if try(append([]uint32(nil), cur[:mid]...)) {
				hi = mid
				if hi > len(cur) {
					hi = len(cur)
				}
			} else {
				lo = mid + 1
			}
		}
		// B. leading draws are the swarm configuration: try 0, then halves
		for i := 0; i < len(cur) && i < 48 && time.Now().Before(deadline); i++ {
			if cur[i] == 0 {
				continue
			}
			cand := append([]uint32(nil), cur...)
			cand[i] = 0
			if try(cand) {
				continue
			}
			for i < len(cur) && cur[i] > 1 {
				cand := append([]uint32(nil), cur...)
				cand[i] = cur[i] / 2
				if !try(cand) {
					break
				}
			}
		}
		// C. zero chunks of decreasing size
		for chunk := len(cur) / 2; chunk >= 1 && time.Now().Before(deadline); chunk /= 2 {
			for i := 0; i < len(cur) && time.Now().Before(deadline); i += chunk {
				end := i + chunk
				if end > len(cur) {
					end = len(cur)
				}
				allZero := true
				for _, v := range cur[i:end] {
					if v != 0 {
						allZero = false
					}
				}
				if allZero {
					continue
				}
				cand := append([]uint32(nil), cur...)
				for j := i; j < end; j++ {
					cand[j] = 0
				}
				try(cand)
			}
		}
		// D. delete chunks
		for chunk := len(cur) / 4; chunk >= 1 && time.Now().Before(deadline); chunk /= 2 {
			for i := 0; i+chunk <= len(cur) && time.Now().Before(deadline); {
				cand := append(append([]uint32(nil), cur[:i]...), cur[i+chunk:]...)
				if !try(cand) {
					i += chunk
				}
			}
		}
		// E. lower remaining values
		for i := 0; i < len(cur) && time.Now().Before(deadline); i++ {
			for i < len(cur) && cur[i] > 0 {
				cand := append([]uint32(nil), cur...)
				cand[i] = cur[i] / 2
				if !try(cand) {
					break
				}
			}
		}
		if weight(cur) >= before {
			break
		}
	}
	best.MinTries = tries
	return best
}

func writeJSON(path string, v any) error {
	b, err := json.MarshalIndent(v, "", " ")
	if err != nil {
		return err
	}
	return os.WriteFile(path, b, 0o644)
}

func sortedKeys(m map[string]int) []string {
	var k []string
	for s := range m {
		k = append(k, s)
	}
	sort.Strings(k)
	return k
}

func capList(l []string, n int) []string {
	if len(l) <= n {
		return l
	}
	return append(append([]string{}, l[:n]...), fmt.Sprintf("... (%d more)", len(l)-n))
}
