package verifsim

// Engine E2: the real stun.Agent under 1..N tasks, checked against an
// executable transaction-table model written from the statement of C13
// (sequential refinement) and, for concurrent runs, with porcupine (C14).

import (
	"errors"
	"fmt"
	"sort"
	"strings"
	"time"

	"github.com/anishathalye/porcupine"
	"github.com/pion/stun/v3"
	"verifrt"
)

const (
	aMaxIDs = 320
)

type aOpKind int

const (
	aStart aOpKind = iota
	aStop
	aStopErr
	aProcess
	aCollect
	aSetHandler
	aClose
	aNumKinds
)

var aKindNames = [...]string{"Start", "Stop", "StopWithError", "Process", "Collect", "SetHandler", "Close"}

// aInput is an operation invocation.
type aInput struct {
	Kind aOpKind
	ID   int // id index
	T    int // time index: deadline (Start) or collect time (Collect)
	Err  int // error index (StopWithError)
	H    int // handler number (SetHandler)
}

func (in aInput) String() string {
	switch in.Kind {
	case aStart:
		return fmt.Sprintf("Start(id%d,dl=t%d)", in.ID, in.T)
	case aStop:
		return fmt.Sprintf("Stop(id%d)", in.ID)
	case aStopErr:
		return fmt.Sprintf("StopWithError(id%d,e%d)", in.ID, in.Err)
	case aProcess:
		return fmt.Sprintf("Process(id%d)", in.ID)
	case aCollect:
		return fmt.Sprintf("Collect(t%d)", in.T)
	case aSetHandler:
		return fmt.Sprintf("SetHandler(h%d)", in.H)
	case aClose:
		return "Close()"
	}
	return "?"
}

type aEvKind int

const (
	evMessage aEvKind = iota
	evTimeout
	evStopped // ErrTransactionStopped
	evStopErr // custom error (index in Err)
	evClosed
	evOther
)

var aEvNames = [...]string{"message", "timeout", "stopped", "stoperr", "closed", "other"}

type aEvent struct {
	ID   int
	Kind aEvKind
	Err  int
	H    int // handler that received it
}

func (e aEvent) String() string {
	s := fmt.Sprintf("id%d:%s", e.ID, aEvNames[e.Kind])
	if e.Kind == evStopErr {
		s += fmt.Sprintf("(e%d)", e.Err)
	}
	return s + fmt.Sprintf("@h%d", e.H)
}

const (
	retNil = iota
	retClosed
	retExists
	retNotExists
	retOther
)

var aRetNames = [...]string{"nil", "ErrAgentClosed", "ErrTransactionExists", "ErrTransactionNotExists", "other"}

type aOutput struct {
	Ret    int
	Events string // canonical sorted multiset
}

func canonEvents(ev []aEvent) string {
	ss := make([]string, len(ev))
	for i, e := range ev {
		ss[i] = e.String()
	}
	sort.Strings(ss)
	return strings.Join(ss, ",")
}

// aState is the abstract transaction table (comparable: porcupine needs ==).
type aState struct {
	DL     [aMaxIDs]int8 // deadline time index, -1 = not registered
	Closed bool
	H      int8
}

func aInit() aState {
	var s aState
	for i := range s.DL {
		s.DL[i] = -1
	}
	return s
}

// aStep is the specification, written from the text of C13.
func aStep(s aState, in aInput) (aState, aOutput) {
	if s.Closed {
		return s, aOutput{Ret: retClosed}
	}
	var ev []aEvent
	ret := retNil
	switch in.Kind {
	case aStart:
		if s.DL[in.ID] >= 0 {
			ret = retExists
		} else {
			s.DL[in.ID] = int8(in.T)
		}
	case aStop, aStopErr:
		if s.DL[in.ID] < 0 {
			ret = retNotExists
		} else {
			s.DL[in.ID] = -1
			k, e := evStopped, 0
			if in.Kind == aStopErr {
				k, e = evStopErr, in.Err
			}
			ev = append(ev, aEvent{ID: in.ID, Kind: k, Err: e, H: int(s.H)})
		}
	case aProcess:
		s.DL[in.ID] = -1
		ev = append(ev, aEvent{ID: in.ID, Kind: evMessage, H: int(s.H)})
	case aCollect:
		for i := range s.DL {
			if s.DL[i] >= 0 && int(s.DL[i]) < in.T { // strictly before
				ev = append(ev, aEvent{ID: i, Kind: evTimeout, H: int(s.H)})
				s.DL[i] = -1
			}
		}
	case aSetHandler:
		s.H = int8(in.H)
	case aClose:
		for i := range s.DL {
			if s.DL[i] >= 0 {
				ev = append(ev, aEvent{ID: i, Kind: evClosed, H: int(s.H)})
				s.DL[i] = -1
			}
		}
		s.Closed = true
	}
	return s, aOutput{Ret: ret, Events: canonEvents(ev)}
}

var aModel = porcupine.Model{
	Init: func() interface{} { return aInit() },
	Step: func(state, input, output interface{}) (bool, interface{}) {
		ns, out := aStep(state.(aState), input.(aInput))
		return out == output.(aOutput), ns
	},
	Equal: func(a, b interface{}) bool { return a.(aState) == b.(aState) },
	DescribeOperation: func(input, output interface{}) string {
		o := output.(aOutput)
		return fmt.Sprintf("%v -> %s [%s]", input.(aInput), aRetNames[o.Ret], o.Events)
	},
}

// ---------------------------------------------------------------------------

type aOpRec struct {
	task   int
	in     aInput
	call   int
	ret    int
	out    aOutput
	events []aEvent
	depth  int
	done   bool
	msg    *stun.Message
}

type agentEngine struct {
	r     *Run
	agent *stun.Agent
	ids   [][stun.TransactionIDSize]byte
	times []time.Time
	errs  []error
	nIDs  int
	nT    int
	nH    int

	nTasks   int
	opsPer   int
	reentPct int
	mix      [aNumKinds]int

	ops      []*aOpRec
	stack    map[int][]*aOpRec // task id -> op stack
	model    aState            // sequential model (single-task runs only)
	seq      bool
	bulk     bool
	nextBulk int
	starts   [aMaxIDs]int // successful Start count per id
	terms    [aMaxIDs]int // terminal events per id
	viol     *Violation
	stats    map[string]int
	states   map[aState]bool
	closing  map[int]bool // tasks currently inside a Close-emitted handler
	desc     []string
}

func (e *agentEngine) Stats() map[string]int { return e.stats }

func (e *agentEngine) NonTrivial() bool { return e.r.Switches >= 2 || len(e.ops) >= 4 }

func (e *agentEngine) HistoryHash() uint64 { return hashName(strings.Join(e.desc, " ")) }

func (e *agentEngine) Describe() any {
	return map[string]any{"tasks": e.nTasks, "ids": e.nIDs, "times": e.nT, "reent_pct": e.reentPct, "bulk": e.bulk, "ops": capList(e.desc, 80)}
}

func (e *agentEngine) Setup(r *Run) {
	e.r = r
	e.stats = map[string]int{}
	e.stack = map[int][]*aOpRec{}
	e.states = map[aState]bool{}
	e.closing = map[int]bool{}
	thorough := r.Tier == "thorough"
	// swarm configuration
	if r.Profile == "C13" {
		e.nTasks = 1
	} else {
		max := 5
		if thorough {
			max = 15
		}
		e.nTasks = 2 + r.Choose(max, "ntasks")
		if !thorough && e.nTasks > 6 {
			e.nTasks = 6
		}
	}
	e.seq = e.nTasks == 1
	e.nIDs = 1 + r.Choose(4, "nids")
	if thorough && r.Pct(30, "moreids") {
		e.nIDs = 4 + r.Choose(5, "nids2")
	}
	if e.seq && r.Pct(12, "bulk") {
		// many transactions registered at once (beyond any internal batch size)
		e.bulk = true
		e.nIDs = 90 + r.Choose(aMaxIDs-90, "nids-bulk")
	}
	e.nT = 2 + r.Choose(5, "ntimes")
	e.nH = 1 + r.Choose(3, "nhandlers")
	total := 40
	if e.seq {
		total = 6 + r.Choose(35, "nops")
	}
	e.opsPer = total / e.nTasks
	if e.opsPer < 1 {
		e.opsPer = 1
	}
	if e.opsPer > 10 && !e.seq {
		e.opsPer = 3 + r.Choose(8, "opsper")
	}
	e.reentPct = []int{0, 0, 15, 40}[r.Choose(4, "reent")]
	for k := range e.mix {
		e.mix[k] = 1 + r.Choose(6, "mix")
	}
	if e.bulk {
		e.reentPct = 0
		e.opsPer = e.nIDs + 20 + r.Choose(60, "nops-bulk")
		e.mix = [aNumKinds]int{aStart: 30, aStop: 1, aStopErr: 1, aProcess: 1, aCollect: 2, aSetHandler: 1, aClose: 0}
	}
	// Close is rare so that runs do real work before it
	e.mix[aClose] = r.Choose(2, "closemix")
	r.Sim.YieldInLock = r.Pct(35, "inlock")
	r.Sim.RaceCheck = true
	r.Sim.MapMode = r.Choose(2, "mapmode")
	r.StayWeight = []int{1, 1, 3, 10}[r.Choose(4, "stay")]
	if !e.seq && r.Pct(25, "pct-policy") {
		r.Policy = 1
	}

	base := time.Date(2020, 1, 1, 0, 0, 0, 0, time.UTC)
	for i := 0; i < 8; i++ {
		e.times = append(e.times, base.Add(time.Duration(i)*time.Second))
	}
	if r.Pct(20, "zero-time") {
		e.times[0] = time.Time{} // the zero time is just the earliest instant
	}
	if r.Pct(20, "far-future") {
		// a "never" deadline: the latest deadline in use; the one later collect
		// time (index nT) must stay after it, the model orders instants by index
		e.times[e.nT-1] = time.Date(9999, 12, 31, 23, 59, 59, 0, time.UTC)
		e.times[e.nT] = e.times[e.nT-1].Add(time.Hour)
	}
	if r.Pct(20, "close-times") {
		// instants one nanosecond apart: the comparison must be exact
		for i := 1; i < e.nT-1; i++ {
			e.times[i] = base.Add(time.Duration(i))
		}
	}
	for i := 1; i <= e.nT; i++ {
		if !e.times[i-1].Before(e.times[i]) {
			panic(&harnessPanic{fmt.Sprintf("agent engine: instants out of order at index %d", i)})
		}
	}
	for i := 0; i < aMaxIDs; i++ {
		var id [stun.TransactionIDSize]byte
		// ids differ in a single bit of the last byte / first byte alternately
		id[0] = 0xA0
		id[5] = byte(i >> 11)
		id[6] = byte(i >> 3)
		id[11] = byte(1 << uint(i%8)) // neighbours differ in a single bit
		e.ids = append(e.ids, id)
	}
	if r.Pct(25, "zero-id") {
		e.ids[0] = [stun.TransactionIDSize]byte{} // the all-zero id is an id like any other
	}
	e.errs = []error{errors.New("custom-0"), errors.New("custom-1"), errors.New("custom-2"), nil} // nil must be passed through unchanged too
	e.model = aInit()

	var setup *verifrt.Task
	setup = r.Sim.Spawn("setup", func() {
		e.agent = stun.NewAgent(e.handler(0))
	})
	_ = setup
	// caller tasks are spawned once setup is done (Quiescent)
}

func (e *agentEngine) handler(h int) stun.Handler {
	return func(ev stun.Event) {
		e.onEvent(h, ev)
	}
}

func (e *agentEngine) idIndex(id [stun.TransactionIDSize]byte) int {
	for i, x := range e.ids {
		if x == id {
			return i
		}
	}
	return -1
}

func (e *agentEngine) fail(class, f string, a ...any) {
	if e.viol == nil {
		e.viol = &Violation{Property: e.r.Profile, Class: class, Msg: fmt.Sprintf(f, a...)}
	}
}

func (e *agentEngine) onEvent(h int, ev stun.Event) {
	r := e.r
	tk := r.Sim.Cur()
	if tk == nil {
		e.fail("event-outside-task", "handler h%d invoked from a goroutine the simulator does not know", h)
		return
	}
	st := e.stack[tk.ID]
	if len(st) == 0 {
		e.fail("event-outside-op", "handler h%d invoked in task %s outside any agent call", h, tk.Name)
		return
	}
	op := st[len(st)-1]
	a := aEvent{ID: e.idIndex(ev.TransactionID), H: h}
	switch {
	case ev.Error == nil && ev.Message != nil:
		a.Kind = evMessage
		if op.msg != ev.Message {
			e.fail("event-message-identity", "%v: handler received a Message that is not the one passed to Process", op.in)
		}
	case errors.Is(ev.Error, stun.ErrTransactionTimeOut):
		a.Kind = evTimeout
	case errors.Is(ev.Error, stun.ErrTransactionStopped):
		a.Kind = evStopped
	case errors.Is(ev.Error, stun.ErrAgentClosed):
		a.Kind = evClosed
	default:
		a.Kind = evOther
		for i, x := range e.errs {
			if ev.Error == x {
				a.Kind, a.Err = evStopErr, i
			}
		}
	}
	if a.Kind != evMessage && ev.Message != nil {
		e.fail("event-error-with-message", "%v: event carries both error %v and a message", op.in, ev.Error)
	}
	if a.ID < 0 {
		e.fail("event-unknown-id", "%v: event for an id that was never used: %x", op.in, ev.TransactionID)
		return
	}
	op.events = append(op.events, a)
	r.Logf("event %v in %s (op %v)", a, tk.Name, op.in)
	if a.Kind != evMessage {
		e.terms[a.ID]++
		if e.terms[a.ID] > e.starts[a.ID]+e.pendingStarts(a.ID) {
			e.fail("terminal-without-registration", "id%d received %d terminal events for %d successful Start calls", a.ID, e.terms[a.ID], e.starts[a.ID])
		}
	}
	if tk.Held() > 0 {
		e.stats["handler_under_lock"]++
	}
	// re-entrancy: call back into the agent from the handler (never from a closed event)
	if a.Kind != evClosed && op.depth < 2 && e.reentPct > 0 && r.Pct(e.reentPct, "reenter") {
		e.stats["handler_reentered_agent"]++
		e.doOp(tk, e.drawOp(true), op.depth+1)
	}
}

// pendingStarts counts Start calls in flight for id (their registration may
// already be visible to other tasks before the call returns).
func (e *agentEngine) pendingStarts(id int) int {
	n := 0
	for _, st := range e.stack {
		for _, op := range st {
			if !op.done && op.in.Kind == aStart && op.in.ID == id {
				n++
			}
		}
	}
	return n
}

func (e *agentEngine) drawOp(nested bool) aInput {
	r := e.r
	w := make([]int, aNumKinds)
	for k := range w {
		w[k] = e.mix[k]
	}
	if nested {
		w[aCollect] *= 4 // overlapping collections are the interesting re-entrancy
		w[aClose] = 0
		if r.Pct(5, "nested-close") {
			w[aClose] = 2
		}
	}
	in := aInput{Kind: aOpKind(r.Pick(w, "op"))}
	switch in.Kind {
	case aStart:
		in.ID = r.Choose(e.nIDs, "id")
		if e.bulk {
			in.ID = e.nextBulk % e.nIDs
			e.nextBulk++
		}
		in.T = r.Choose(e.nT, "deadline")
	case aStop, aProcess:
		in.ID = r.Choose(e.nIDs, "id")
	case aStopErr:
		in.ID = r.Choose(e.nIDs, "id")
		in.Err = r.Choose(len(e.errs), "err")
	case aCollect:
		in.T = r.Choose(e.nT+1, "collect-time")
	case aSetHandler:
		in.H = r.Choose(e.nH, "handler")
	}
	return in
}

func retClass(err error) int {
	switch {
	case err == nil:
		return retNil
	case errors.Is(err, stun.ErrAgentClosed):
		return retClosed
	case errors.Is(err, stun.ErrTransactionExists):
		return retExists
	case errors.Is(err, stun.ErrTransactionNotExists):
		return retNotExists
	}
	return retOther
}

func (e *agentEngine) doOp(tk *verifrt.Task, in aInput, depth int) {
	r := e.r
	op := &aOpRec{task: tk.ID, in: in, depth: depth}
	e.ops = append(e.ops, op)
	e.stack[tk.ID] = append(e.stack[tk.ID], op)
	e.desc = append(e.desc, fmt.Sprintf("%s:%v", tk.Name, in))
	var expect aOutput
	if e.seq {
		// sequential refinement: the transition takes effect when the call
		// starts (the agent unregisters before it calls back)
		e.model, expect = aStep(e.model, in)
		e.states[e.model] = true
	}
	op.call = r.Seq()
	r.Logf("invoke %v by %s depth=%d", in, tk.Name, depth)
	verifrt.Yield(-20)
	var err error
	switch in.Kind {
	case aStart:
		err = e.agent.Start(e.ids[in.ID], e.times[in.T])
	case aStop:
		err = e.agent.Stop(e.ids[in.ID])
	case aStopErr:
		err = e.agent.StopWithError(e.ids[in.ID], e.errs[in.Err])
	case aProcess:
		op.msg = &stun.Message{TransactionID: e.ids[in.ID]}
		// any class of message may carry the id
		op.msg.Type = stun.NewType(stun.MethodBinding, []stun.MessageClass{stun.ClassRequest, stun.ClassIndication, stun.ClassSuccessResponse, stun.ClassErrorResponse}[r.Choose(4, "msg-class")])
		err = e.agent.Process(op.msg)
	case aCollect:
		err = e.agent.Collect(e.times[in.T])
	case aSetHandler:
		err = e.agent.SetHandler(e.handler(in.H))
	case aClose:
		err = e.agent.Close()
	}
	op.out = aOutput{Ret: retClass(err), Events: canonEvents(op.events)}
	op.done = true
	if in.Kind == aStart && err == nil {
		e.starts[in.ID]++
	}
	op.ret = r.Seq()
	r.Logf("return %v -> %s [%s]", in, aRetNames[op.out.Ret], op.out.Events)
	st := e.stack[tk.ID]
	e.stack[tk.ID] = st[:len(st)-1]
	if e.seq && op.out != expect {
		e.fail("refinement:"+aKindNames[in.Kind], "%v returned %s with events [%s]; the transaction-table specification gives %s with events [%s] (history: %s)",
			in, aRetNames[op.out.Ret], op.out.Events, aRetNames[expect.Ret], expect.Events, strings.Join(e.desc, " "))
	}
	verifrt.Yield(-21)
}

func (e *agentEngine) spawnCallers() {
	r := e.r
	for i := 0; i < e.nTasks; i++ {
		name := fmt.Sprintf("T%d", i)
		n := e.opsPer
		r.Sim.Spawn(name, func() {
			tk := r.Sim.Cur()
			for j := 0; j < n; j++ {
				e.doOp(tk, e.drawOp(false), 0)
			}
			if e.seq {
				// epilogue: Close, then every operation again
				e.doOp(tk, aInput{Kind: aClose}, 0)
				for k := aOpKind(0); k < aNumKinds; k++ {
					e.doOp(tk, aInput{Kind: k, ID: r.Choose(e.nIDs, "id"), T: r.Choose(e.nT, "t"), H: 0}, 0)
				}
			}
		}, r.Sim.Tasks[0])
	}
}

func (e *agentEngine) Env() []EnvEvent { return nil }

func (e *agentEngine) Check() *Violation { return e.viol }

func (e *agentEngine) Quiescent() bool {
	if e.agent != nil && len(e.r.Sim.Tasks) == 1 {
		e.spawnCallers()
		return true
	}
	return false
}

func (e *agentEngine) Finish() *Violation {
	r := e.r
	if e.viol != nil {
		return e.viol
	}
	// deadlock / stuck tasks
	for _, tk := range r.Sim.Unfinished() {
		return &Violation{Property: r.Profile, Class: "deadlock-stuck", Msg: fmt.Sprintf("run is quiescent but task %s is %v at %s (label %s, stack %v)",
			tk.Name, tk.State, verifrt.SiteName(tk.Site), tk.Label, tk.FuncStack())}
	}
	e.stats["ops"] = len(e.ops)
	e.stats["model_states"] = len(e.states)
	if e.seq {
		return nil
	}
	// linearizability against the specification
	var pops []porcupine.Operation
	for _, op := range e.ops {
		pops = append(pops, porcupine.Operation{ClientId: op.task, Input: op.in, Call: int64(op.call), Output: op.out, Return: int64(op.ret)})
	}
	if len(pops) > 60 {
		e.stats["porcupine_skipped_long"]++
		return nil
	}
	res := porcupine.CheckOperationsTimeout(aModel, pops, 5*time.Second)
	switch res {
	case porcupine.Ok:
		e.stats["porcupine_ok"]++
	case porcupine.Unknown:
		e.stats["porcupine_unknown"]++
	case porcupine.Illegal:
		e.stats["porcupine_illegal"]++
		var sb strings.Builder
		for _, op := range e.ops {
			fmt.Fprintf(&sb, "\n  [%d,%d] task%d %v -> %s [%s]", op.call, op.ret, op.task, op.in, aRetNames[op.out.Ret], op.out.Events)
		}
		return &Violation{Property: r.Profile, Class: "not-linearizable", Msg: "history has no sequential explanation:" + sb.String()}
	}
	// conservation at the end: terminal events never exceed registrations
	for i := 0; i < e.nIDs; i++ {
		if e.terms[i] > e.starts[i] {
			return &Violation{Property: r.Profile, Class: "terminal-without-registration", Msg: fmt.Sprintf("id%d: %d terminal events for %d successful Start calls", i, e.terms[i], e.starts[i])}
		}
	}
	return nil
}
