package verifsim

import (
	"encoding/json"
	"os"
)

// KnownFinding is one entry of /verif/known_findings.json: a genuine defect of
// pion/stun that was recorded rather than repaired. A violation is attributed
// to a finding only when its class and the finding's signature predicate
// (evaluated over the recorded history of the run) both match; any other
// violation of the same property is still reported.
type KnownFinding struct {
	ID          string   `json:"id"`
	Property    string   `json:"property"`
	Properties  []string `json:"properties,omitempty"`
	Status      string   `json:"status"` // "open" or "fixed"
	Signature   string   `json:"signature"`
	Description string   `json:"description"`
	Fixed       string   `json:"fixed,omitempty"`
}

type knownSet struct {
	Findings []KnownFinding `json:"findings"`
}

func loadKnown() *knownSet {
	ks := &knownSet{}
	p := os.Getenv("VERIF_KNOWN")
	if p == "" {
		return ks
	}
	b, err := os.ReadFile(p)
	if err != nil {
		return ks
	}
	if err := json.Unmarshal(b, ks); err != nil {
		panic("known_findings.json: " + err.Error())
	}
	return ks
}

// match returns the id of the open known finding that explains r.Viol, or "".
func (ks *knownSet) match(r *Run) string {
	if r.Viol == nil {
		return ""
	}
	for _, k := range ks.Findings {
		if k.Status != "open" {
			continue
		}
		if sigMatch(k.Signature, r) {
			r.Viol.Known = k.ID
			return k.ID
		}
	}
	return ""
}

// sigMatch evaluates a named signature predicate on a finished run.
func sigMatch(sig string, r *Run) bool {
	if m, ok := r.eng.(interface {
		MatchKnown(sig string, v *Violation) bool
	}); ok {
		return m.MatchKnown(sig, r.Viol)
	}
	return false
}
