#!/bin/bash
# verify_seed.sh <agent-out-dir> <seed-id> : confirm an independently seeded change
#  (suite passes with it; demo fails with it; demo passes without it) in a scratch
#  copy of /repo, then copy it to /verif/seeded/<seed-id>/ with a verification log.
set -uo pipefail
export GOFLAGS=-mod=mod GOPROXY=off GOSUMDB=off GOTOOLCHAIN=local
SRC=$(readlink -f "$1"); ID=$2
VERIF=$(cd "$(dirname "$0")/.." && pwd)
SCR=$(mktemp -d /dev/shm/verif-seed.XXXXXX)
trap 'rm -rf "$SCR"' EXIT
rsync -a --exclude .git --exclude out /repo/ "$SCR/repo/"
cd "$SCR/repo"
demo=$(ls "$SRC"/demo_test.go "$SRC"/demo*_test.go 2>/dev/null | head -1)
[ -n "$demo" ] || { echo "no demo_test.go in $SRC"; exit 3; }
pkgdir=.
grep -q '^package hmac' "$demo" && pkgdir=internal/hmac
tests=$(grep -o '^func Test[A-Za-z0-9_]*' "$demo" | sed 's/func //' | paste -sd'|')
RACE=""
grep -q -- "-race" "$demo" && RACE="-race"
log="$SCR/verify.log"
{
echo "== seed $ID  (source $SRC)"; echo "demo tests: $tests (package dir $pkgdir)"
cp "$demo" "$pkgdir/zz_seed_demo_test.go"
echo "-- demo WITHOUT the change (must pass)"
timeout 600 go test $RACE -vet=off -count=1 -timeout 300s -run "^($tests)\$" ./$pkgdir 2>&1 | tail -5; r0=${PIPESTATUS[0]}
patch -s -p1 <"$SRC/patch.diff" || { echo "PATCH DOES NOT APPLY"; exit 3; }
echo "-- demo WITH the change (must fail)"
timeout 600 go test $RACE -vet=off -count=1 -timeout 300s -run "^($tests)\$" ./$pkgdir 2>&1 | tail -12; r1=${PIPESTATUS[0]}
rm -f "$pkgdir/zz_seed_demo_test.go"
echo "-- existing suite WITH the change (must pass, run twice)"
go build ./... && go test -vet=off -count=1 ./... 2>&1 | grep -v "no test files"; r2=${PIPESTATUS[1]}
go test -vet=off -count=1 ./... 2>&1 | grep -v "no test files"; r3=${PIPESTATUS[0]}
echo "RESULT demo_without=$r0 demo_with=$r1 suite_with=$r2/$r3"
} >"$log" 2>&1
cat "$log" | tail -30
if grep -q "RESULT demo_without=0 demo_with=[1-9][0-9]* suite_with=0/0" "$log"; then
  mkdir -p "$VERIF/seeded/$ID"
  cp "$SRC/patch.diff" "$VERIF/seeded/$ID/patch.diff"; cp "$demo" "$VERIF/seeded/$ID/"; [ -f "$SRC/README.md" ] && cp "$SRC/README.md" "$VERIF/seeded/$ID/README.md"
  cp "$log" "$VERIF/seeded/$ID/verify.log"
  echo "CONFIRMED $ID"
else
  echo "NOT CONFIRMED $ID"
fi
