#!/bin/bash
# Run every own mutant and every independently seeded change against the checks
# of the property it breaks (plus neighbours); meant for `vp run` from a snapshot.
cd "$(dirname "$0")/.."
B=${1:-40}
./setup.sh >/dev/null 2>&1 || { echo "setup failed"; exit 2; }
: > seeded/RESULTS.txt
for d in seeded/C*/; do
  id=$(basename $d); prop=${id:0:3}
  scripts/mutant.sh $d/patch.diff $B $prop 2>&1 | grep "^MUTANT" | tee -a seeded/RESULTS.txt
done
mutants/run_all.sh $B | tee mutants/RESULTS.txt
