#!/bin/bash
# sweep_list.sh <budget> <seed-id>... : run the check of each seed's property against it (for vp run)
cd "$(dirname "$0")/.."
B=$1; shift
./setup.sh >/dev/null 2>&1 || { echo "setup failed"; exit 2; }
for id in "$@"; do
  prop=${id:0:3}
  scripts/mutant.sh seeded/$id/patch.diff $B $prop 2>&1 | grep "^MUTANT"
done
