#!/usr/bin/env python3
"""Regenerate DESIGN.md section 15 (which check catches which change) from
seeded/*/meta.json, seeded/RESULTS*.txt and mutants/RESULTS.txt."""
import json, glob, os, re, sys
root = os.path.dirname(os.path.dirname(os.path.abspath(__file__)))
res = {}  # id -> {prop: (exit, wall, class)}
def load(path):
    for l in open(path):
        m = re.match(r'MUTANT (\S+) property=(\S+) exit=(\d+) wall=(\d+)s ?(.*)', l.strip())
        if not m: continue
        mid, prop, ex, wall, rest = m.groups()
        cls = rest.split(' :: ')[0].strip() if rest else ''
        cur = res.setdefault(mid, {}).get(prop)
        # keep the best (detected) result over several sweeps, remember misses
        if cur is None or (cur[0] != '1' and ex == '1'):
            res[mid][prop] = (ex, wall, cls[:70], os.path.basename(path))
for f in sorted(glob.glob(root + '/seeded/RESULTS*.txt')) + [root + '/mutants/RESULTS.txt']:
    if os.path.exists(f): load(f)
out = []
out.append('| change | breaks | what it needs to manifest | detected by (quick tier unless noted) |')
out.append('|---|---|---|---|')
for d in sorted(glob.glob(root + '/seeded/C*/')):
    mid = os.path.basename(d.rstrip('/'))
    meta = json.load(open(d + 'meta.json'))
    r = res.get(mid, {})
    det = []
    for prop, (ex, wall, cls, src) in sorted(r.items()):
        if ex == '1': det.append('**%s** `%s` (%ss)' % (prop, cls, wall))
        elif ex == '0': det.append('%s: not in %ss' % (prop, wall))
        else: det.append('%s: exit %s' % (prop, ex))
    note = meta.get('note', '')
    sh = meta.get('status_at_head', {})
    if sh.get('status') == 'neutralised':
        note = ('NEUTRALISED at %s: the demonstration no longer fails with the change (a later fix: commit removed the path) ' % sh.get('repo_head')) + note
    out.append('| %s: %s | %s | %s | %s%s |' % (mid, meta['change'].replace('|', '/'), meta['property'], meta['needs_to_manifest'].replace('|', '/'), '; '.join(det) or 'not run', (' - ' + note) if note else ''))
print('\n'.join(out))
print()
print('| own mutant | properties | result |')
print('|---|---|---|')
for d in sorted(glob.glob(root + '/mutants/m*/')):
    mid = os.path.basename(d.rstrip('/'))
    desc = open(d + 'meta.txt').read().split('\n')[0]
    r = res.get(mid, {})
    det = ['%s `%s` (%ss)' % (p, v[2], v[1]) if v[0] == '1' else '%s: not detected in %ss' % (p, v[1]) for p, v in sorted(r.items())]
    print('| %s: %s | %s | %s |' % (mid, desc, ' '.join(sorted(r)), '; '.join(det)))
