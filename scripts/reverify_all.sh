#!/bin/bash
# Re-verify every stored seed against /repo's current HEAD: does its demonstration
# still fail with the change (valid) or not (neutralised by a later fix: commit)?
cd "$(dirname "$0")/.."
head=$(git -C /repo rev-parse --short HEAD)
for d in seeded/C*/; do
  id=$(basename $d)
  rm -rf /dev/shm/rv && cp -r $d /dev/shm/rv
  out=$(timeout 2400 scripts/verify_seed.sh /dev/shm/rv zz-reverify 2>&1 | tail -2)
  res=$(echo "$out" | grep -o "RESULT.*")
  if echo "$out" | grep -q "^CONFIRMED"; then st=valid; else st=neutralised; fi
  echo "$id $st $res"
  python3 - "$d/meta.json" "$st" "$head" "$res" <<'PY'
import json,sys
p,st,head,res=sys.argv[1:5]
m=json.load(open(p)); m['status_at_head']={'repo_head':head,'status':st,'verify':res}
json.dump(m,open(p,'w'),indent=1)
PY
  rm -rf seeded/zz-reverify /dev/shm/rv
done
