#!/bin/bash
# seed_batch.sh <budget> : verify every /tmp/wt-*/out/<k> not yet under /verif/seeded and run the checks of its property
cd /verif
B=${1:-40}
for wt in /tmp/wt-*; do
  tag=$(basename $wt | sed 's/wt-//')
  prop=${tag:0:3}
  for d in $wt/out/[0-9]*; do
    [ -f "$d/patch.diff" ] || continue
    id="$tag-$(basename $d)"
    if [ ! -d seeded/$id ]; then
      scripts/verify_seed.sh "$d" "$id" 2>&1 | tail -2
    fi
    [ -d seeded/$id ] || continue
    extra=""
    case $prop in C10) extra="C15";; C11) extra="C10";; C12) extra="C10";; C15) extra="C10";; C14) extra="C13";; C13) extra="C14";; esac
    scripts/mutant.sh seeded/$id/patch.diff $B $prop $extra 2>&1 | grep "^MUTANT" | tee -a seeded/RESULTS.txt
  done
done
