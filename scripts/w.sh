#!/bin/bash
# dev helper: w.sh <engine> <profile> <budget_ms> [seed] -> summary
cd /verif/.cache/dev
VERIF_ENGINE=$1 VERIF_PROFILE=$2 VERIF_SEED=${4:-1} VERIF_BUDGET_MS=$3 VERIF_MIN_MS=${MIN_MS:-8000} ./sim.test -test.run '^TestWorker$' -test.timeout 0 | python3 -c "
import json,sys
d=json.loads(sys.stdin.readline()); d.pop('site_hits',None); d['fps']=len(d.get('fps') or []); d['samples']=None
for v in d.get('violations') or []:
    v['log']=v['log'][-${LOGN:-40}:]
    v['describe']=None if '${DESC:-}'=='' else v['describe']
print(json.dumps(d,indent=1))"
