#!/bin/bash
# Run every quick check briefly on the current tree (evidence to a scratch dir):
# meant to be run before committing a harness change. usage: precommit.sh [budget] [seed]
cd "$(dirname "$0")/.."
./setup.sh >/dev/null 2>&1 || { echo "setup failed"; exit 2; }
rc=0
for p in C10 C11 C12 C13 C14 C15 C18; do
  VERIF_SEED=${2:-1} VERIF_EVIDENCE_DIR=/dev/shm/ev-precommit VERIF_REPLAY_DIR=/dev/shm/rp-precommit bin/vcheck check $p --budget ${1:-30} 2>&1 | grep -v "^KNOWN" | cut -c1-220 || true
  [ ${PIPESTATUS[0]} -ne 0 ] && rc=1
done
exit $rc
