#!/bin/bash
# Build the simulation harness against an instrumented scratch copy of the
# repository's CURRENT working tree.   usage: build.sh <out-binary> [--smoke]
# Nothing is left behind except <out-binary>.
set -euo pipefail
export PATH=/opt/veriftools/go1.26.8/bin:$PATH
export GOFLAGS=-mod=mod GOPROXY=off GOSUMDB=off GOTOOLCHAIN=local
VERIF=$(cd "$(dirname "$0")/.." && pwd)
REPO=${VERIF_REPO:-/repo}
OUT=$1
SMOKE=${2:-}
BASE=${VERIF_SCRATCH:-/dev/shm}
[ -d "$BASE" ] && [ -w "$BASE" ] || BASE=${TMPDIR:-/var/tmp}
SCR=$(mktemp -d "$BASE/verif-build.XXXXXX")
trap 'rm -rf "$SCR"' EXIT
[ -x "$VERIF/bin/vinstr" ] || (cd "$VERIF/tools" && go build -o "$VERIF/bin/vinstr" ./cmd/vinstr)
rsync -a --exclude .git "$REPO"/ "$SCR/copy/"
(cd "$SCR/copy" && "$VERIF/bin/vinstr" . .:agent.go,client.go internal/hmac:hmac.go,pool.go >"$SCR/vinstr.log" 2>&1) || { cat "$SCR/vinstr.log" >&2; echo "build.sh: instrumentation failed" >&2; exit 2; }
cat >>"$SCR/copy/go.mod" <<EOM

require verifrt v0.0.0

replace verifrt => $VERIF/rt
EOM
if [ "$SMOKE" = "--smoke" ]; then
  # equivalence smoke test: the repository's own tests against the instrumented
  # copy with the runtime in pass-through mode
  # (some of the repository's own client tests are timing based and can hang on a
  # loaded machine: bounded time, three attempts)
  ok=0
  for attempt in 1 2 3; do
    if (cd "$SCR/copy" && go test -vet=off -count=1 -timeout 180s . ./internal/hmac/ >"$SCR/smoke.log" 2>&1); then ok=1; break; fi
    echo "build.sh: smoke attempt $attempt failed, retrying" >&2
  done
  [ $ok = 1 ] || { tail -50 "$SCR/smoke.log" >&2; echo "build.sh: equivalence smoke test failed" >&2; exit 2; }
  echo "smoke: repository tests pass against the instrumented copy (pass-through runtime)"
fi
mkdir "$SCR/sim"
cp "$VERIF"/sim/*.go "$SCR/sim/"
sed -e "s#@COPY@#$SCR/copy#" -e "s#@RT@#$VERIF/rt#" "$VERIF/sim/go.mod.tmpl" >"$SCR/sim/go.mod"
cp "$REPO/go.sum" "$SCR/sim/go.sum"
(cd "$SCR/sim" && go test -c -vet=off -o "$SCR/sim.test" . >"$SCR/build.log" 2>&1) || { cat "$SCR/build.log" >&2; echo "build.sh: harness build failed" >&2; exit 2; }
mkdir -p "$(dirname "$OUT")"
mv "$SCR/sim.test" "$OUT"
grep -c . "$SCR/copy/verif_gen.go" >/dev/null
tail -1 "$SCR/vinstr.log"
