#!/bin/bash
# Run checks against a property-breaking change without touching /repo:
#   mutant.sh <patch.diff> <budget-seconds> <property>...
# The patch is applied to a scratch copy of /repo's working tree (removed at the
# end); evidence and replays of these runs go to the scratch directory, except
# that the first replay per property is kept under /verif/replays/mutants/.
set -uo pipefail
VERIF=$(cd "$(dirname "$0")/.." && pwd)
PATCH=$(readlink -f "$1"); BUDGET=$2; shift 2
SCR=$(mktemp -d /dev/shm/verif-mut.XXXXXX)
trap 'rm -rf "$SCR"' EXIT
rsync -a --exclude .git --exclude out /repo/ "$SCR/repo/"
(cd "$SCR/repo" && patch -s -p1 <"$PATCH") || { echo "MUTANT patch does not apply: $PATCH"; exit 3; }
mkdir -p "$SCR/ev" "$SCR/rp" "$VERIF/replays/mutants"
name=$(basename "$(dirname "$PATCH")")
for P in "$@"; do
  t0=$(date +%s.%N)
  out=$(VERIF_REPO="$SCR/repo" VERIF_EVIDENCE_DIR="$SCR/ev" VERIF_REPLAY_DIR="$SCR/rp" VERIF_SEED=${VERIF_SEED:-1} "$VERIF/bin/vcheck" check "$P" --budget "$BUDGET" 2>"$SCR/err.txt")
  rc=$?
  t1=$(date +%s.%N)
  cls=$(ls "$SCR"/rp/$P-*.json 2>/dev/null | head -1)
  if [ -n "$cls" ]; then
    c=$(python3 -c "import json,sys; d=json.load(open('$cls')); print(d['violation']['class'], '::', d['violation']['msg'][:160].replace('\n',' '))")
    cp "$cls" "$VERIF/replays/mutants/$name-$P.json"
  else c=""; fi
  printf "MUTANT %s property=%s exit=%d wall=%.0fs %s\n" "$name" "$P" "$rc" "$(echo "$t1 - $t0" | bc)" "$c"
  [ $rc -eq 2 ] && tail -5 "$SCR/err.txt"
  echo "$out" | grep -E "^C[0-9]+ (quick|thorough)" | cut -c1-200
done
