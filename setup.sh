#!/bin/bash
# MANIFEST.setup_cmd: build the framework from files on disk only (offline).
set -euo pipefail
cd "$(dirname "$0")"
export PATH=/opt/veriftools/go1.26.8/bin:$PATH
export GOFLAGS=-mod=mod GOPROXY=off GOSUMDB=off GOTOOLCHAIN=local
mkdir -p bin evidence replays .cache
(cd tools && go build -o ../bin/vinstr ./cmd/vinstr && go build -o ../bin/vcheck ./cmd/vcheck)
# build the harness for the current tree and run the equivalence smoke test
bin/vcheck build --smoke
echo "setup ok"
