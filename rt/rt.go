// Package verifrt is the runtime behind the instrumented scratch copy of
// pion/stun (see /verif/DESIGN.md §3).  With S == nil every entry point is a
// pass-through to the real sync primitive, so the instrumented package behaves
// exactly like the original.  With S set, goroutines become tasks of a
// cooperative, seeded scheduler: exactly one task runs at a time, every
// scheduling-relevant operation parks the task, and lock / cond / pool / map
// order / select choices are decided by the simulator.
package verifrt

import (
	"bytes"
	"fmt"
	"reflect"
	"runtime"
	"sort"
	"strconv"
	"sync"
	"unsafe"
)

type State int

const (
	Spawning State = iota
	Parked         // waiting at a yield point; may be released at any time
	Running        // released; after settle this means: blocked in a real (durable) operation
	Blocked        // waiting for Pred (lock, cond, harness condition)
	Done
)

func (s State) String() string {
	return [...]string{"spawning", "parked", "running/real-blocked", "blocked", "done"}[s]
}

type Task struct {
	ID       int
	Name     string
	wake     chan struct{}
	State    State
	Site     int // last yield / block site
	Pred     func() bool
	Label    string
	held     int
	Panic    string // non-empty if the task body panicked
	PanicVal any
	vc       VC
	funcs    []int
	Steps    int
	// scheduling priority (PCT style), owned by the harness
	Prio int
}

type lockState struct {
	owner          *Task
	readers        map[*Task]int
	writersWaiting int
	relW, relR     VC // released by Unlock / RUnlock
}

type Sim struct {
	mu     sync.Mutex
	Tasks  []*Task
	byGoid map[int64]*Task
	locks  map[any]*lockState
	conds  map[*sync.Cond]*condState
	pools  map[*sync.Pool][]any
	syncVC map[uintptr]VC
	shadow map[uintptr]*cell

	// Choose is the single source of nondeterminism.
	Choose func(n int, label string) int

	// Debug, if set, receives runtime-level events (pool traffic); it must not
	// draw or read a clock.
	Debug func(string)

	// knobs (set before the run starts)
	YieldInLock bool
	SiteOff     []bool // SiteOff[site] == true: yield at this site is skipped in this run
	PoolMode    int    // 0: LIFO always recycle; 1: seeded newest/oldest/fresh + drop on Put
	MapMode     int    // 0: sorted order; 1: seeded permutation
	RaceCheck   bool

	// outputs
	Races        []string
	SiteHits     []uint32
	PoolStats    struct{ Get, Recycled, CrossTask, Fresh, Dropped, DoublePut int }
	putBy        map[any]int
	InLockYields int
}

type condState struct {
	waiters []*condWaiter
}

type condWaiter struct {
	t        *Task
	signaled bool
}

// S is the active simulation; nil means pass-through.
var S *Sim

var (
	SiteNames []string
	FuncNames []string
)

// RegisterSites is called from generated code in the instrumented package.
func RegisterSites(sites, funcs []string) {
	SiteNames = sites
	FuncNames = funcs
}

func SiteName(i int) string {
	if i >= 0 && i < len(SiteNames) {
		return SiteNames[i]
	}
	return "h" + strconv.Itoa(i)
}

func New() *Sim {
	return &Sim{
		byGoid:   map[int64]*Task{},
		locks:    map[any]*lockState{},
		conds:    map[*sync.Cond]*condState{},
		pools:    map[*sync.Pool][]any{},
		syncVC:   map[uintptr]VC{},
		shadow:   map[uintptr]*cell{},
		putBy:    map[any]int{},
		SiteHits: make([]uint32, len(SiteNames)),
	}
}

func goid() int64 {
	var b [64]byte
	n := runtime.Stack(b[:], false)
	s := b[len("goroutine "):n]
	i := bytes.IndexByte(s, ' ')
	id, _ := strconv.ParseInt(string(s[:i]), 10, 64)
	return id
}

func (s *Sim) cur() *Task {
	g := goid()
	s.mu.Lock()
	t := s.byGoid[g]
	s.mu.Unlock()
	return t
}

// Cur returns the task of the calling goroutine (nil if unknown).
func (s *Sim) Cur() *Task { return s.cur() }

func (s *Sim) newTask(name string, parent *Task) *Task {
	s.mu.Lock()
	t := &Task{ID: len(s.Tasks), Name: name, wake: make(chan struct{}), State: Spawning, Site: -1}
	s.Tasks = append(s.Tasks, t)
	t.vc = VC{}
	if parent != nil {
		t.vc = parent.vc.clone()
		parent.vc.tick(parent.ID)
	}
	t.vc.set(t.ID, 1)
	s.mu.Unlock()
	return t
}

// Spawn creates a harness task running f. The new task happens-after the
// current state of every task in after.
func (s *Sim) Spawn(name string, f func(), after ...*Task) *Task {
	t := s.newTask(name, nil)
	for _, a := range after {
		t.vc.join(a.vc)
	}
	go func() {
		defer func() { s.exit(t, recover()) }()
		s.enter(t)
		f()
	}()
	return t
}

func (s *Sim) enter(t *Task) {
	s.mu.Lock()
	s.byGoid[goid()] = t
	t.State = Parked
	s.mu.Unlock()
	<-t.wake
}

func (s *Sim) exit(t *Task, r any) {
	if r != nil {
		buf := make([]byte, 8192)
		buf = buf[:runtime.Stack(buf, false)]
		t.PanicVal = r
		t.Panic = fmt.Sprintf("%v\n%s", r, buf)
	}
	s.mu.Lock()
	t.State = Done
	delete(s.byGoid, goid())
	s.mu.Unlock()
}

// Release lets task t run until it parks again. Scheduler only.
func (s *Sim) Release(t *Task) {
	s.mu.Lock()
	t.State = Running
	t.Pred = nil
	t.Steps++
	s.mu.Unlock()
	t.wake <- struct{}{}
}

// Runnable returns the tasks that may be released now, in task-id order.
func (s *Sim) Runnable() []*Task {
	s.mu.Lock()
	defer s.mu.Unlock()
	var r []*Task
	for _, t := range s.Tasks {
		switch t.State {
		case Parked:
			r = append(r, t)
		case Blocked:
			if t.Pred() {
				r = append(r, t)
			}
		}
	}
	return r
}

// Unfinished returns tasks that are not done.
func (s *Sim) Unfinished() []*Task {
	s.mu.Lock()
	defer s.mu.Unlock()
	var r []*Task
	for _, t := range s.Tasks {
		if t.State != Done {
			r = append(r, t)
		}
	}
	return r
}

func (s *Sim) park(t *Task, site int) {
	s.mu.Lock()
	t.State = Parked
	t.Site = site
	s.mu.Unlock()
	<-t.wake
}

// BlockUntil parks the current task until pred holds (evaluated by the scheduler).
func (s *Sim) BlockUntil(label string, site int, pred func() bool) {
	t := s.cur()
	if t == nil {
		panic("verifrt: BlockUntil from unknown goroutine")
	}
	s.blockUntil(t, label, site, pred)
}

func (s *Sim) blockUntil(t *Task, label string, site int, pred func() bool) {
	s.mu.Lock()
	t.State = Blocked
	t.Pred = pred
	t.Label = label
	t.Site = site
	s.mu.Unlock()
	<-t.wake
}

// InFunc reports whether task t is currently inside the instrumented function
// whose name is name (e.g. "Client.handleAgentCallback").
func (t *Task) InFunc(name string) bool {
	for _, f := range t.funcs {
		if FuncNames[f] == name {
			return true
		}
	}
	return false
}

// FuncStack returns the instrumented functions t is inside, outermost first.
func (t *Task) FuncStack() []string {
	var r []string
	for _, f := range t.funcs {
		r = append(r, FuncNames[f])
	}
	return r
}

func (t *Task) Held() int { return t.held }

// ---------------------------------------------------------------------------
// hooks called from instrumented code

type funcTok struct {
	t *Task
}

func FuncEnter(fid int) funcTok {
	s := S
	if s == nil {
		return funcTok{}
	}
	t := s.cur()
	if t == nil {
		return funcTok{}
	}
	t.funcs = append(t.funcs, fid)
	return funcTok{t}
}

func FuncExit(k funcTok) {
	if k.t != nil && len(k.t.funcs) > 0 {
		k.t.funcs = k.t.funcs[:len(k.t.funcs)-1]
	}
}

func Yield(site int) {
	s := S
	if s == nil {
		return
	}
	t := s.cur()
	if t == nil {
		return
	}
	if site >= 0 && site < len(s.SiteHits) {
		s.SiteHits[site]++
	}
	if t.held > 0 {
		if !s.YieldInLock {
			return
		}
		s.InLockYields++
	}
	if site >= 0 && site < len(s.SiteOff) && s.SiteOff[site] {
		return
	}
	s.park(t, site)
}

// ForceYield parks regardless of knobs (used after real blocking operations).
func ForceYield(site int) {
	s := S
	if s == nil {
		return
	}
	t := s.cur()
	if t == nil {
		return
	}
	s.park(t, site)
}

func (s *Sim) ls(l any) *lockState {
	st := s.locks[l]
	if st == nil {
		st = &lockState{readers: map[*Task]int{}}
		s.locks[l] = st
	}
	return st
}

// Deadlock is the panic value raised when a task would block for ever on a
// simulated lock.
type Deadlock struct{ Msg string }

func (d *Deadlock) Error() string { return d.Msg }

func Lock(l sync.Locker, site int) {
	s := S
	if s == nil {
		l.Lock()
		return
	}
	t := s.cur()
	if t == nil {
		l.Lock()
		return
	}
	s.mu.Lock()
	st := s.ls(l)
	if st.owner == t || st.readers[t] > 0 {
		s.mu.Unlock()
		panic(&Deadlock{fmt.Sprintf("task %s locks %T it already holds, at %s; stack %v", t.Name, l, SiteName(site), t.FuncStack())})
		// (the lock's address is deliberately not printed: messages must be identical across runs)
	}
	free := st.owner == nil && len(st.readers) == 0
	if !free {
		st.writersWaiting++
	}
	s.mu.Unlock()
	if !free {
		s.blockUntil(t, "lock", site, func() bool { return st.owner == nil && len(st.readers) == 0 })
		s.mu.Lock()
		st.writersWaiting--
		s.mu.Unlock()
	}
	s.mu.Lock()
	st.owner = t
	t.held++
	t.vc.join(st.relW)
	t.vc.join(st.relR)
	s.mu.Unlock()
	// The real mutex is not taken under simulation: ownership is tracked here
	// and exactly one task runs at a time. (A real lock left held by a task that
	// panicked would otherwise leak into later runs when the mutex is a
	// package-level object.)
}

// TryLock never blocks: it succeeds iff the simulated lock is free.
func TryLock(l sync.Locker, site int) bool {
	s := S
	t := (*Task)(nil)
	if s != nil {
		t = s.cur()
	}
	if s == nil || t == nil {
		type tryLocker interface{ TryLock() bool }
		return l.(tryLocker).TryLock()
	}
	s.mu.Lock()
	defer s.mu.Unlock()
	st := s.ls(l)
	if st.owner != nil || len(st.readers) > 0 {
		return false
	}
	st.owner = t
	t.held++
	t.vc.join(st.relW)
	t.vc.join(st.relR)
	return true
}

func Unlock(l sync.Locker) {
	s := S
	if s == nil {
		l.Unlock()
		return
	}
	t := s.cur()
	if t == nil {
		l.Unlock()
		return
	}
	s.mu.Lock()
	st := s.ls(l)
	if st.owner != t {
		s.mu.Unlock()
		panic(fmt.Sprintf("sync: unlock of mutex not held by task %s (unlock of unlocked mutex)", t.Name))
	}
	st.owner = nil
	t.held--
	st.relW = st.relW.joined(t.vc)
	t.vc.tick(t.ID)
	s.mu.Unlock()
}

func RLock(l *sync.RWMutex, site int) {
	s := S
	if s == nil {
		l.RLock()
		return
	}
	t := s.cur()
	if t == nil {
		l.RLock()
		return
	}
	s.mu.Lock()
	st := s.ls(sync.Locker(l))
	if st.owner == t {
		s.mu.Unlock()
		panic(&Deadlock{fmt.Sprintf("task %s read-locks RWMutex it holds for writing, at %s", t.Name, SiteName(site))})
	}
	if st.readers[t] > 0 && st.writersWaiting > 0 {
		s.mu.Unlock()
		panic(&Deadlock{fmt.Sprintf("task %s re-read-locks RWMutex while a writer waits, at %s", t.Name, SiteName(site))})
	}
	free := st.owner == nil && st.writersWaiting == 0
	s.mu.Unlock()
	if !free {
		s.blockUntil(t, "rlock", site, func() bool { return st.owner == nil && st.writersWaiting == 0 })
	}
	s.mu.Lock()
	st.readers[t]++
	t.held++
	t.vc.join(st.relW)
	s.mu.Unlock()
}

func RUnlock(l *sync.RWMutex) {
	s := S
	if s == nil {
		l.RUnlock()
		return
	}
	t := s.cur()
	if t == nil {
		l.RUnlock()
		return
	}
	s.mu.Lock()
	st := s.ls(sync.Locker(l))
	if st.readers[t] <= 0 {
		s.mu.Unlock()
		panic(fmt.Sprintf("sync: RUnlock of RWMutex not read-locked by task %s", t.Name))
	}
	st.readers[t]--
	if st.readers[t] == 0 {
		delete(st.readers, t)
	}
	t.held--
	st.relR = st.relR.joined(t.vc)
	t.vc.tick(t.ID)
	s.mu.Unlock()
}

func CondWait(c *sync.Cond, site int) {
	s := S
	if s == nil {
		c.Wait()
		return
	}
	t := s.cur()
	if t == nil {
		c.Wait()
		return
	}
	s.mu.Lock()
	cs := s.conds[c]
	if cs == nil {
		cs = &condState{}
		s.conds[c] = cs
	}
	w := &condWaiter{t: t}
	cs.waiters = append(cs.waiters, w)
	s.mu.Unlock()
	Unlock(c.L)
	st := s.ls(c.L)
	s.blockUntil(t, "cond", site, func() bool { return w.signaled && st.owner == nil && len(st.readers) == 0 })
	s.mu.Lock()
	st.owner = t
	t.held++
	t.vc.join(st.relW)
	t.vc.join(st.relR)
	s.mu.Unlock()
}

func CondWake(c *sync.Cond, all bool) {
	s := S
	if s == nil {
		if all {
			c.Broadcast()
		} else {
			c.Signal()
		}
		return
	}
	s.mu.Lock()
	cs := s.conds[c]
	var pending []*condWaiter
	if cs != nil {
		for _, w := range cs.waiters {
			if !w.signaled {
				pending = append(pending, w)
			}
		}
	}
	s.mu.Unlock()
	if len(pending) == 0 {
		return
	}
	if all {
		for _, w := range pending {
			w.signaled = true
		}
	} else {
		pending[s.Choose(len(pending), "cond-signal")].signaled = true
	}
	s.mu.Lock()
	keep := cs.waiters[:0]
	for _, w := range cs.waiters {
		if !w.signaled {
			keep = append(keep, w)
		}
	}
	cs.waiters = keep
	s.mu.Unlock()
}

func WGAdd(wg *sync.WaitGroup, n int) {
	wg.Add(n)
}

func WGDone(wg *sync.WaitGroup) {
	if s := S; s != nil {
		if t := s.cur(); t != nil {
			s.release(t, uintptr(unsafe.Pointer(wg)))
		}
	}
	wg.Done()
}

func WGWait(wg *sync.WaitGroup, site int) {
	wg.Wait()
	s := S
	if s == nil {
		return
	}
	t := s.cur()
	if t == nil {
		return
	}
	s.acquire(t, uintptr(unsafe.Pointer(wg)))
	s.park(t, site)
}

func chanKey(ch any) uintptr { return reflect.ValueOf(ch).Pointer() }

func ChanClose[T any](ch chan T, site int) {
	if s := S; s != nil {
		if t := s.cur(); t != nil {
			s.release(t, chanKey(ch))
		}
	}
	close(ch)
}

// ChanRecvd is inserted after a receive completed: happens-before edge from
// the close / send, then a forced yield (the receive may have blocked for real).
func ChanRecvd(ch any, site int) {
	s := S
	if s == nil {
		return
	}
	t := s.cur()
	if t == nil {
		return
	}
	s.acquire(t, chanKey(ch))
	s.park(t, site)
}

func PreGo(site int) int {
	s := S
	if s == nil {
		return -1
	}
	parent := s.cur()
	if parent == nil {
		return -1
	}
	t := s.newTask("go@"+SiteName(site), parent)
	return t.ID
}

func Enter(id int) {
	s := S
	if s == nil || id < 0 {
		return
	}
	s.mu.Lock()
	t := s.Tasks[id]
	s.mu.Unlock()
	s.enter(t)
}

// Exit is deferred in spawned goroutines; r is the recover() value.
func Exit(id int, r any) {
	s := S
	if s == nil || id < 0 {
		if r != nil {
			panic(r)
		}
		return
	}
	s.mu.Lock()
	t := s.Tasks[id]
	s.mu.Unlock()
	s.exit(t, r)
}

func MapOrder[K comparable, V any](m map[K]V, site int) []K {
	keys := make([]K, 0, len(m))
	for k := range m {
		keys = append(keys, k)
	}
	s := S
	if s == nil {
		return keys
	}
	sort.Slice(keys, func(i, j int) bool { return fmt.Sprint(keys[i]) < fmt.Sprint(keys[j]) })
	if s.MapMode == 1 {
		for i := len(keys) - 1; i > 0; i-- {
			j := s.Choose(i+1, "maporder")
			// value 0 keeps the element in place
			j = i - j
			keys[i], keys[j] = keys[j], keys[i]
		}
	}
	return keys
}

func PoolGet(p *sync.Pool, site int) any {
	s := S
	if s == nil {
		return p.Get()
	}
	t := s.cur()
	if t == nil {
		return p.Get()
	}
	s.mu.Lock()
	l := s.pools[p]
	s.PoolStats.Get++
	s.mu.Unlock()
	var x any
	if len(l) > 0 {
		pick := 0
		if s.PoolMode == 1 {
			pick = s.Choose(3, "poolget")
		}
		switch pick {
		case 0: // newest
			x = l[len(l)-1]
			s.mu.Lock()
			s.pools[p] = l[:len(l)-1]
			s.mu.Unlock()
		case 1: // oldest
			x = l[0]
			s.mu.Lock()
			s.pools[p] = append([]any(nil), l[1:]...)
			s.mu.Unlock()
		}
	}
	if x != nil {
		if s.Debug != nil {
			s.Debug(fmt.Sprintf("pool get %T %p (recycled) by %s", x, x, t.Name))
		}
		s.PoolStats.Recycled++
		if by, ok := s.putBy[x]; ok && by != t.ID {
			s.PoolStats.CrossTask++
		}
		s.acquire(t, reflect.ValueOf(x).Pointer())
		return x
	}
	s.PoolStats.Fresh++
	if p.New == nil {
		return nil
	}
	return p.New()
}

func PoolPut(p *sync.Pool, x any) {
	s := S
	if s == nil {
		p.Put(x)
		return
	}
	t := s.cur()
	if t == nil {
		p.Put(x)
		return
	}
	if s.PoolMode == 1 && s.Choose(4, "poolput-drop") == 3 {
		s.PoolStats.Dropped++
		return
	}
	if s.Debug != nil {
		s.Debug(fmt.Sprintf("pool put %T %p by %s", x, x, t.Name))
	}
	s.release(t, reflect.ValueOf(x).Pointer())
	s.mu.Lock()
	s.putBy[x] = t.ID
	for _, y := range s.pools[p] {
		if y == x {
			s.PoolStats.DoublePut++ // the object is already in the pool: two owners released it
		}
	}
	s.pools[p] = append(s.pools[p], x)
	s.mu.Unlock()
}

// PoolLen reports how many objects the simulated pool for p holds.
func (s *Sim) PoolLen(p *sync.Pool) int { return len(s.pools[p]) }

// Select returns the index of the comm clause to try first.
func Select(site, n int) int {
	s := S
	if s == nil {
		return 0
	}
	if t := s.cur(); t == nil {
		return 0
	}
	return s.Choose(n, "select")
}

// ---------------------------------------------------------------------------
// happens-before and race detection

func (s *Sim) acquire(t *Task, key uintptr) {
	s.mu.Lock()
	t.vc.join(s.syncVC[key])
	s.mu.Unlock()
}

func (s *Sim) release(t *Task, key uintptr) {
	s.mu.Lock()
	s.syncVC[key] = s.syncVC[key].joined(t.vc)
	t.vc.tick(t.ID)
	s.mu.Unlock()
}

// HBRelease / HBAcquire let the harness add edges for synchronisation it
// performs itself on behalf of the code under test (none by default).
func (s *Sim) HBRelease(key uintptr) {
	if t := s.cur(); t != nil {
		s.release(t, key)
	}
}

func (s *Sim) HBAcquire(key uintptr) {
	if t := s.cur(); t != nil {
		s.acquire(t, key)
	}
}

type accEntry struct {
	task   int
	clock  uint32
	site   int
	write  bool
	atomic bool
}

type cell struct {
	acc []accEntry
}

func (s *Sim) access(p uintptr, site int, write, atomic bool) {
	if !s.RaceCheck {
		return
	}
	t := s.cur()
	if t == nil {
		return
	}
	s.mu.Lock()
	defer s.mu.Unlock()
	c := s.shadow[p]
	if c == nil {
		c = &cell{}
		s.shadow[p] = c
	}
	my := t.vc.get(t.ID)
	slot := -1
	for i := range c.acc {
		e := &c.acc[i]
		if e.task == t.ID {
			if e.write == write && e.atomic == atomic {
				slot = i
			}
			continue
		}
		if !(write || e.write) || (atomic && e.atomic) {
			continue
		}
		if e.clock > t.vc.get(e.task) {
			if len(s.Races) < 4 {
				s.Races = append(s.Races, fmt.Sprintf("data race on %s: %s by task %s at [%s] is unordered with %s by task %s at [%s]",
					SiteName(site)[indexAcc(SiteName(site)):], rw(write, atomic), t.Name, SiteName(site),
					rw(e.write, e.atomic), s.Tasks[e.task].Name, SiteName(e.site)))
			}
		}
	}
	if slot >= 0 {
		c.acc[slot].clock = my
		c.acc[slot].site = site
	} else {
		c.acc = append(c.acc, accEntry{t.ID, my, site, write, atomic})
	}
}

func indexAcc(s string) int {
	if i := bytes.Index([]byte(s), []byte("acc ")); i >= 0 {
		return i + 4
	}
	return 0
}

func rw(w, a bool) string {
	r := "read"
	if w {
		r = "write"
	}
	if a {
		r = "atomic " + r
	}
	return r
}

func R[T any](p *T, site int) {
	if s := S; s != nil {
		s.access(uintptr(unsafe.Pointer(p)), site, false, false)
	}
}

func W[T any](p *T, site int) {
	if s := S; s != nil {
		s.access(uintptr(unsafe.Pointer(p)), site, true, false)
	}
}

// RS / WS record a read / write of the elements of slice s (keyed by the start
// of the window s describes: the slices of the instrumented code all start at
// index 0 of their backing array).
func RS[T any](s []T, site int) {
	if sim := S; sim != nil && cap(s) > 0 {
		sim.access(uintptr(unsafe.Pointer(unsafe.SliceData(s[:cap(s)])))|1, site, false, false)
	}
}

func WS[T any](s []T, site int) {
	if sim := S; sim != nil && cap(s) > 0 {
		sim.access(uintptr(unsafe.Pointer(unsafe.SliceData(s[:cap(s)])))|1, site, true, false)
	}
}

// AtomicPtr wraps the address operand of a sync/atomic call.
func AtomicPtr[T any](p *T, kind int, site int) *T {
	s := S
	if s == nil {
		return p
	}
	t := s.cur()
	if t == nil {
		return p
	}
	key := uintptr(unsafe.Pointer(p))
	s.acquire(t, key)
	s.access(key, site, kind == 1, true)
	if kind == 1 {
		s.release(t, key)
	}
	return p
}

// ---------------------------------------------------------------------------
// vector clocks

type VC []uint32

func (v VC) get(i int) uint32 {
	if i < len(v) {
		return v[i]
	}
	return 0
}

func (v *VC) set(i int, x uint32) {
	for len(*v) <= i {
		*v = append(*v, 0)
	}
	(*v)[i] = x
}

func (v *VC) tick(i int) { v.set(i, v.get(i)+1) }

func (v *VC) join(o VC) {
	for i, x := range o {
		if x > v.get(i) {
			v.set(i, x)
		}
	}
}

func (v VC) clone() VC { return append(VC(nil), v...) }

func (v VC) joined(o VC) VC {
	r := v.clone()
	r.join(o)
	return r
}
