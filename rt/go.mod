module verifrt

go 1.20
